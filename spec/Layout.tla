-------------------------------- MODULE Layout --------------------------------
(* The assembler's layout (property C32).  A program is a set of blocks, some      *)
(* pinned at an address, some linked to the next one by fall-through; assembling   *)
(* it into a destination range gives patches (offset, length) and final label      *)
(* addresses.  A witness layout (the same program assembled with every chain       *)
(* pinned) shows that a non-overlapping layout in the range exists: assembling     *)
(* must then succeed, and the result must place every pinned block at its address, *)
(* keep patches disjoint and inside the range, keep fall-through blocks            *)
(* contiguous and decode to the program's instructions with every label reference  *)
(* resolved to the label's final address.                                          *)
EXTENDS Integers, Sequences, FiniteSets, TLC

Range(s) == {s[i] : i \in 1..Len(s)}
Disjoint(ps) == \A i, j \in 1..Len(ps) : i < j => (ps[i].off + ps[i].len <= ps[j].off \/ ps[j].off + ps[j].len <= ps[i].off)
Inside(ps, lo, hi) == \A i \in 1..Len(ps) : ps[i].off >= lo /\ ps[i].off + ps[i].len <= hi
(* the witness: chains [start, size] from the all-pinned assembly *)
WitnessOK(it) == Disjoint([i \in 1..Len(it.witness) |-> [off |-> it.witness[i].start, len |-> it.witness[i].size]])
                 /\ Inside([i \in 1..Len(it.witness) |-> [off |-> it.witness[i].start, len |-> it.witness[i].size]], it.lo, it.hi)
                 /\ \A i \in 1..Len(it.witness) : it.witness[i].pin >= 0 => it.witness[i].pin = it.witness[i].start
BlockNamed(it, n) == CHOOSE b \in Range(it.blocks) : b.name = n
ResultDiff(it) ==
  IF \E b \in Range(it.blocks) : b.pin >= 0 /\ b.start # b.pin
  THEN LET b == CHOOSE b \in Range(it.blocks) : b.pin >= 0 /\ b.start # b.pin IN "pinned-label-" \o b.name \o "-at-" \o ToString(b.start)
  ELSE IF ~Disjoint(it.patches) THEN "patches-overlap"
  ELSE IF ~Inside(it.patches, it.lo, it.hi) THEN "patch-outside-the-destination-range"
  ELSE IF \E b \in Range(it.blocks) : b.next # "" /\ BlockNamed(it, b.next).start # b.start + b.size
  THEN LET b == CHOOSE b \in Range(it.blocks) : b.next # "" /\ BlockNamed(it, b.next).start # b.start + b.size IN
       "fall-through-from-" \o b.name \o "-not-contiguous"
  ELSE IF \E b \in Range(it.blocks) : \E i \in 1..Len(b.want) : b.want[i] # b.got[i]
  THEN LET b == CHOOSE b \in Range(it.blocks) : \E i \in 1..Len(b.want) : b.want[i] # b.got[i]
           i == CHOOSE i \in 1..Len(b.want) : b.want[i] # b.got[i] IN
       "block-" \o b.name \o "-decodes-to-" \o b.got[i] \o "-instead-of-" \o b.want[i]
  ELSE "ok"
AVerdict(it) == IF ~WitnessOK(it) THEN "model:witness-layout-is-not-valid"
                ELSE IF it.raised # "" THEN "bad:fails-although-a-layout-exists:" \o it.raised
                ELSE IF ResultDiff(it) # "ok" THEN "bad:" \o ResultDiff(it)
                ELSE "ok"
=============================================================================
