-------------------------------- MODULE VmMngr --------------------------------
(* miasm.jitter.VmMngr (vm_mngr.c, vm_mngr_py.c) -- property C24, and the base    *)
(* layer of the jitter, loader and allocator specifications.                      *)
(* A byte map with per-page permissions.  Addresses are abstract 0..N-1 (the      *)
(* harness maps them to real addresses); access bits: 1 = read, 2 = write.         *)
(* Values of typed accesses are byte sequences, least significant byte first.      *)
EXTENDS Integers, Sequences, FiniteSets, TLC

CONSTANTS N,          \* abstract address space 0..N-1
          Sizes,      \* page sizes used by AddPage (may contain 0)
          Accs,       \* access values used (subset of 0..3)
          Fills,      \* byte values used to fill new pages
          Vals,       \* byte values used in writes
          Widths      \* access widths in bytes, subset of {1,2,4,8}

VARIABLES pages,      \* set of [b, s, acc]
          bytes,      \* mapped address -> byte
          endian,     \* "little" | "big"
          bps,        \* memory breakpoints: set of <<ad, size, kind>>  (kind bits: 1 read, 2 write)
          rset, wset, \* addresses recorded as read / written since the last reset
          flags,      \* subset of {"AV", "BPM", "AUTOMOD"}
          code,       \* registered code blocks: set of <<start, stop>>
          ret
vars == <<pages, bytes, endian, bps, rset, wset, flags, code, ret>>

Addr == 0..(N - 1)
R(t, b, n) == [t |-> t, b |-> b, n |-> n]
None == R("none", <<>>, 0)
Err(e) == R(e, <<>>, 0)

Init == /\ pages = {} /\ bytes = <<>> /\ endian = "little" /\ bps = {}
        /\ rset = {} /\ wset = {} /\ flags = {} /\ code = {} /\ ret = None

In(p, a) == p.b <= a /\ a < p.b + p.s
Mapped(a) == \E p \in pages : In(p, a)
PageOf(a) == CHOOSE p \in pages : In(p, a)
Range(a, n) == a..(a + n - 1)
AllMapped(a, n) == \A x \in Range(a, n) : Mapped(x)
HasAcc(a, n, bit) == \A x \in Range(a, n) : Mapped(x) /\ (PageOf(x).acc \div bit) % 2 = 1
Rev(q) == [i \in 1..Len(q) |-> q[Len(q) + 1 - i]]
MemSeq(a, n) == [i \in 1..n |-> bytes[a + i - 1]]
ToVal(q) == IF endian = "little" THEN q ELSE Rev(q)        \* memory order <-> value order
WriteBytes(a, q) == [x \in DOMAIN bytes |-> IF x \in Range(a, Len(q)) THEN q[x - a + 1] ELSE bytes[x]]

(* ---- mapping ---------------------------------------------------------------- *)
Overlaps(b, s) == \E p \in pages : ~(p.b >= b + s \/ p.b + p.s <= b)
AddPage(b, s, acc, fill) ==
  /\ b + s <= N
  /\ IF Overlaps(b, s)
     THEN ret' = Err("TypeError") /\ UNCHANGED <<pages, bytes>>
     ELSE /\ pages' = pages \cup {[b |-> b, s |-> s, acc |-> acc]}
          /\ bytes' = [x \in DOMAIN bytes \cup Range(b, s) |-> IF x \in Range(b, s) THEN fill ELSE bytes[x]]
          /\ ret' = None
  /\ UNCHANGED <<endian, bps, rset, wset, flags, code>>

RemovePage(a) ==
  /\ IF Mapped(a)
     THEN LET p == PageOf(a) IN
          /\ pages' = pages \ {p}
          /\ bytes' = [x \in DOMAIN bytes \ Range(p.b, p.s) |-> bytes[x]]
     ELSE UNCHANGED <<pages, bytes>>
  /\ ret' = None /\ UNCHANGED <<endian, bps, rset, wset, flags, code>>

SetAccess(a, acc) ==
  /\ IF Mapped(a)
     THEN /\ pages' = (pages \ {PageOf(a)}) \cup {[PageOf(a) EXCEPT !.acc = acc]}
          /\ ret' = None /\ flags' = flags
     ELSE /\ ret' = Err("RuntimeError") /\ flags' = flags \cup {"AV"} /\ pages' = pages
  /\ UNCHANGED <<bytes, endian, bps, rset, wset, code>>

GetAccess(a) ==
  /\ IF Mapped(a) THEN ret' = R("int", <<>>, PageOf(a).acc) /\ flags' = flags
     ELSE ret' = Err("RuntimeError") /\ flags' = flags \cup {"AV"}
  /\ UNCHANGED <<pages, bytes, endian, bps, rset, wset, code>>

IsMapped(a, n) == /\ ret' = R("int", <<>>, IF AllMapped(a, n) THEN 1 ELSE 0)
                  /\ UNCHANGED <<pages, bytes, endian, bps, rset, wset, flags, code>>

(* ---- host access ---------------------------------------------------------------- *)
GetMem(a, n) ==
  /\ IF AllMapped(a, n) THEN ret' = R("bytes", MemSeq(a, n), 0) /\ flags' = flags
     ELSE ret' = Err("RuntimeError") /\ flags' = flags \cup {"AV"}
  /\ UNCHANGED <<pages, bytes, endian, bps, rset, wset, code>>

AutomodHit(w) == \E c \in code : \E x \in w : c[1] <= x /\ x < c[2]
(* a failing host write has already stored the bytes that precede the first unmapped
   address (the property only says that it fails) *)
FirstUnmapped(a, n) == CHOOSE x \in Range(a, n) : ~Mapped(x) /\ \A y \in Range(a, n) : y < x => Mapped(y)
HostWrite(a, q) ==
  IF AllMapped(a, Len(q))
  THEN /\ bytes' = WriteBytes(a, q) /\ wset' = wset \cup Range(a, Len(q))
       /\ flags' = IF AutomodHit(wset \cup Range(a, Len(q))) THEN flags \cup {"AUTOMOD"} ELSE flags
       /\ ret' = None
  ELSE /\ bytes' = WriteBytes(a, SubSeq(q, 1, FirstUnmapped(a, Len(q)) - a))
       /\ flags' = flags \cup {"AV"} /\ wset' = wset /\ ret' = Err("TypeError")
SetMem(a, q) == a + Len(q) <= N /\ HostWrite(a, q) /\ UNCHANGED <<pages, endian, bps, rset, code>>
GetU(w, a) ==
  /\ a + w <= N
  /\ IF AllMapped(a, w) THEN ret' = R("bytes", ToVal(MemSeq(a, w)), 0) /\ flags' = flags
     ELSE ret' = Err("RuntimeError") /\ flags' = flags \cup {"AV"}
  /\ UNCHANGED <<pages, bytes, endian, bps, rset, wset, code>>
SetU(w, a, v) == a + w <= N /\ Len(v) = w /\ HostWrite(a, ToVal(v)) /\ UNCHANGED <<pages, endian, bps, rset, code>>

(* ---- emulated access ------------------------------------------------------------ *)
BpAt(a, kind) == \E b \in bps : (b[3] \div kind) % 2 = 1 /\ b[1] <= a /\ a < b[1] + b[2]
FirstOK(a, bit) == Mapped(a) /\ (PageOf(a).acc \div bit) % 2 = 1
EmuRead(w, a) ==
  /\ a + w <= N
  /\ rset' = rset \cup Range(a, w)           \* attempted accesses are recorded
  /\ IF HasAcc(a, w, 1)
     THEN ret' = R("bytes", ToVal(MemSeq(a, w)), 0)
     ELSE ret' = R("bytes", [i \in 1..w |-> 0], 0)
  /\ flags' = flags \cup (IF HasAcc(a, w, 1) THEN {} ELSE {"AV"})
                    \cup (IF FirstOK(a, 1) /\ BpAt(a, 1) THEN {"BPM"} ELSE {})
  /\ UNCHANGED <<pages, bytes, endian, bps, wset, code>>
EmuWrite(w, a, v) ==
  /\ a + w <= N /\ Len(v) = w
  /\ wset' = wset \cup Range(a, w)
  /\ IF HasAcc(a, w, 2) THEN bytes' = WriteBytes(a, ToVal(v)) ELSE bytes' = bytes   \* a fault leaves memory unchanged
  /\ flags' = flags \cup (IF HasAcc(a, w, 2) THEN {} ELSE {"AV"})
                    \cup (IF FirstOK(a, 2) /\ BpAt(a, 2) THEN {"BPM"} ELSE {})
  /\ ret' = None /\ UNCHANGED <<pages, endian, bps, rset, code>>

(* ---- breakpoints, access lists, flags ------------------------------------------- *)
BpOverlap == \E b \in bps :
               \/ ((b[3] % 2 = 1) /\ \E x \in rset : b[1] <= x /\ x < b[1] + b[2])
               \/ ((b[3] \div 2) % 2 = 1 /\ \E x \in wset : b[1] <= x /\ x < b[1] + b[2])
BpOverlapWith(B) == \E b \in B :
               \/ ((b[3] % 2 = 1) /\ \E x \in rset : b[1] <= x /\ x < b[1] + b[2])
               \/ ((b[3] \div 2) % 2 = 1 /\ \E x \in wset : b[1] <= x /\ x < b[1] + b[2])
AddMemBp(a, s, kind) ==
  /\ bps' = bps \cup {<<a, s, kind>>}
  /\ flags' = IF BpOverlapWith(bps \cup {<<a, s, kind>>}) THEN flags \cup {"BPM"} ELSE flags
  /\ ret' = None /\ UNCHANGED <<pages, bytes, endian, rset, wset, code>>
RemoveMemBp(a, kind) ==
  /\ bps' = {b \in bps : ~(b[1] = a /\ b[3] = kind)}
  /\ ret' = None /\ UNCHANGED <<pages, bytes, endian, rset, wset, flags, code>>
CheckMemBp ==
  /\ flags' = IF BpOverlap THEN flags \cup {"BPM"} ELSE flags
  /\ ret' = None /\ UNCHANGED <<pages, bytes, endian, bps, rset, wset, code>>
ResetAccess == /\ rset' = {} /\ wset' = {} /\ ret' = None
               /\ UNCHANGED <<pages, bytes, endian, bps, flags, code>>
ClearFlags == flags' = {} /\ ret' = None /\ UNCHANGED <<pages, bytes, endian, bps, rset, wset, code>>
SetEndian(e) == endian' = e /\ ret' = None /\ UNCHANGED <<pages, bytes, bps, rset, wset, flags, code>>
AddCode(a, b) == /\ code' = code \cup {<<a, b>>} /\ ret' = None
                 /\ UNCHANGED <<pages, bytes, endian, bps, rset, wset, flags>>
CheckCode == /\ flags' = IF AutomodHit(wset) THEN flags \cup {"AUTOMOD"} ELSE flags
             /\ ret' = None /\ UNCHANGED <<pages, bytes, endian, bps, rset, wset, code>>

Do(o) == CASE o.op = "AddPage" -> AddPage(o.b, o.s, o.acc, o.fill)
           [] o.op = "RemovePage" -> RemovePage(o.a)
           [] o.op = "SetAccess" -> SetAccess(o.a, o.acc)
           [] o.op = "GetAccess" -> GetAccess(o.a)
           [] o.op = "IsMapped" -> IsMapped(o.a, o.n)
           [] o.op = "GetMem" -> GetMem(o.a, o.n)
           [] o.op = "SetMem" -> SetMem(o.a, o.q)
           [] o.op = "GetU" -> GetU(o.w, o.a)
           [] o.op = "SetU" -> SetU(o.w, o.a, o.v)
           [] o.op = "EmuRead" -> EmuRead(o.w, o.a)
           [] o.op = "EmuWrite" -> EmuWrite(o.w, o.a, o.v)
           [] o.op = "AddMemBp" -> AddMemBp(o.a, o.s, o.kind)
           [] o.op = "RemoveMemBp" -> RemoveMemBp(o.a, o.kind)
           [] o.op = "CheckMemBp" -> CheckMemBp
           [] o.op = "ResetAccess" -> ResetAccess
           [] o.op = "ClearFlags" -> ClearFlags
           [] o.op = "SetEndian" -> SetEndian(o.e)
           [] o.op = "AddCode" -> AddCode(o.a, o.b)
           [] o.op = "CheckCode" -> CheckCode

(* one value per width: bytes v, v+1, ... so that byte order is visible *)
ValSeq(w, v) == [i \in 1..w |-> v + i - 1]
Ops ==    {o \in [op : {"AddPage"}, b : Addr, s : Sizes, acc : Accs, fill : Fills] : o.b + o.s <= N}
     \cup [op : {"RemovePage"}, a : Addr]
     \cup [op : {"SetAccess"}, a : Addr, acc : Accs] \cup [op : {"GetAccess"}, a : Addr]
     \cup {o \in [op : {"IsMapped", "GetMem"}, a : Addr, n : {0, 1, 2, 3}] : o.a + o.n <= N}
     \cup {o \in [op : {"SetMem"}, a : Addr, q : {ValSeq(n, v) : n \in {1, 2, 3}, v \in Vals}] : o.a + Len(o.q) <= N}
     \cup {o \in [op : {"GetU", "EmuRead"}, w : Widths, a : Addr] : o.a + o.w <= N}
     \cup {o \in [op : {"SetU", "EmuWrite"}, w : Widths, a : Addr, v : {ValSeq(w, v) : w \in Widths, v \in Vals}] :
              o.a + o.w <= N /\ Len(o.v) = o.w}
     \cup {o \in [op : {"AddMemBp"}, a : Addr, s : {1, 2}, kind : {1, 2, 3}] : o.a + o.s <= N}
     \cup [op : {"RemoveMemBp"}, a : Addr, kind : {1, 2, 3}]
     \cup [op : {"CheckMemBp", "ResetAccess", "ClearFlags", "CheckCode"}]
     \cup [op : {"SetEndian"}, e : {"little", "big"}]
     \cup {o \in [op : {"AddCode"}, a : Addr, b : Addr] : o.a < o.b}
Next == \E o \in Ops : Do(o)
Spec == Init /\ [][Next]_vars

----------------------------------------------------------------------------
(* Properties (C24) *)
TypeOK == /\ DOMAIN bytes = {a \in Addr : Mapped(a)}
          /\ flags \subseteq {"AV", "BPM", "AUTOMOD"}
(* overlapping mappings are refused: pages with bytes never intersect *)
NoOverlap == \A p, q \in pages : (p # q /\ p.s > 0 /\ q.s > 0) => (p.b + p.s <= q.b \/ q.b + q.s <= p.b)
(* an emulated access that faults leaves memory unchanged and reports the fault *)
FaultAtomic == [][("AV" \in flags' /\ "AV" \notin flags /\ ret'.t \notin {"RuntimeError", "TypeError"})
                    => bytes' = bytes]_vars
(* after a breakpoint check the flag is up exactly when a recorded access overlaps a breakpoint *)
BpExact == [][(CheckMemBp /\ "BPM" \notin flags) => (("BPM" \in flags') <=> BpOverlap)]_vars
(* recorded ranges only grow by the bytes an operation touches and are emptied by reset *)
Recorded == [][(rset' # rset \/ wset' # wset) => (rset \subseteq rset' /\ wset \subseteq wset') \/ (rset' = {} /\ wset' = {})]_vars

MemList == [a \in Addr |-> IF Mapped(a) THEN bytes[a] ELSE -1]
AccList == [a \in Addr |-> IF Mapped(a) THEN PageOf(a).acc ELSE -1]
Proj == [mem |-> [i \in 1..N |-> MemList[i - 1]], acc |-> [i \in 1..N |-> AccList[i - 1]],
         endian |-> endian, rset |-> rset, wset |-> wset, flags |-> flags]
AbsView == <<pages, bytes, endian, bps, rset, wset, flags, code>>
ToSet(q) == {q[i] : i \in 1..Len(q)}
Matches(j) == /\ \A i \in 1..N : MemList[i - 1] = j.mem[i] /\ AccList[i - 1] = j.acc[i]
              /\ endian = j.endian /\ rset = ToSet(j.rset) /\ wset = ToSet(j.wset) /\ flags = ToSet(j.flags)
=============================================================================
