------------------------------- MODULE Intern -------------------------------
(* Hash-consing of miasm expressions (property C08): expressions are canonical   *)
(* values.  A construction request is described by a structural key (a record    *)
(* tree); the table maps the NORMALISED key (integers reduced modulo 2^width) to *)
(* the token of the unique live object.  Building an equal key returns the same  *)
(* (The key pool itself, its normalisation and the width rule are in             *)
(* InternKeys.tla, which TLC evaluates once per pool to produce RepF / WidthF.)   *)
(* token; every identity round-trip (repr->parse, pickle, deepcopy, copy,        *)
(* replace nothing, visit with identity) of a built expression returns its own   *)
(* token; the width of a node is a function of its components.                   *)
EXTENDS Integers, Sequences, FiniteSets, TLC

CONSTANTS N,         \* number of construction requests in the pool
          RepF,      \* request index -> first request with the same normalised structural key (InternKeys.tla)
          WidthF,    \* request index -> width determined by the components (InternKeys.tla)
          Kinds      \* identity round-trips to exercise

VARIABLES tok,       \* key class (representative request index) -> token, as a set of pairs
          next,      \* number of tokens handed out
          ret
vars == <<tok, next, ret>>

R(t, w) == ToString(t) \o ":" \o ToString(w)       \* results are strings: an exception name is a string too
Dom == {p[1] : p \in tok}                 \* representatives of the keys that have a live object
TokOf(r) == (CHOOSE p \in tok : p[1] = r)[2]

Init == tok = {} /\ next = 0 /\ ret = "none"

Build(i) ==
  LET r == RepF[i] IN
  IF r \in Dom
  THEN /\ ret' = R(TokOf(r), WidthF[i]) /\ UNCHANGED <<tok, next>>
  ELSE /\ tok' = tok \cup {<<r, next>>} /\ next' = next + 1
       /\ ret' = R(next, WidthF[i])

(* an identity round-trip of an expression that was built: the same object comes back *)
Identity(kind, i) ==
  LET r == RepF[i] IN
  /\ r \in Dom
  /\ ret' = R(TokOf(r), WidthF[i])
  /\ UNCHANGED <<tok, next>>

Do(o) == CASE o.op = "Build" -> Build(o.i)
           [] o.op = "Identity" -> Identity(o.kind, o.i)
Ops == [op : {"Build"}, i : 1..N] \cup [op : {"Identity"}, kind : Kinds, i : 1..N]
Next == \E o \in Ops : Do(o)
Spec == Init /\ [][Next]_vars

(* properties *)
Injective == \A p, q \in tok : (p[2] = q[2]) <=> (p[1] = q[1])
TokensDense == {p[2] : p \in tok} = 0..(next - 1)
NeverForgets == [][tok \subseteq tok']_vars

(* binding *)
Built == {i \in 1..N : RepF[i] \in Dom}
Proj == [toks |-> [i \in 1..N |-> IF i \in Built THEN TokOf(RepF[i]) ELSE -1], n |-> next]
AbsView == <<tok, next>>
Matches(j) == /\ j.n = next
              /\ \A i \in 1..N : j.toks[i] = (IF i \in Built THEN TokOf(RepF[i]) ELSE -1)
=============================================================================
