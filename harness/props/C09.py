"""C09 possible_values: some alternative is enabled, every enabled alternative has the concrete value."""
from .. import core
from .. import exprjson as X
from .. import exprgen


def gen_exprs(ctx, n):
    import miasm.expression.expression as m
    rng = ctx.rng
    g = exprgen.Gen(rng, widths=[8, 16, 32], ptr=32)
    out = []

    def cond(w, d):
        c = g.expr(rng.choice([1, 8]), max(0, d - 1))
        return m.ExprCond(c, nest(w, d - 1), nest(w, d - 1))

    def nest(w, d):
        if d <= 0:
            return g.leaf(w)
        k = rng.random()
        if k < 0.35:
            return cond(w, d)
        if k < 0.55:
            return m.ExprOp(rng.choice(exprgen.NARY), nest(w, d - 1), nest(w, d - 1))
        if k < 0.65 and w >= 16:
            return m.ExprCompose(nest(8, d - 1), nest(w - 8, d - 1))
        if k < 0.75:
            return nest(32, d - 1)[0:w] if w < 32 else nest(w, d - 1)
        if k < 0.85 and w % 8 == 0:
            return m.ExprMem(nest(32, d - 1), w)
        if k < 0.92:
            return m.ExprOp(rng.choice(["<<", ">>", "a>>"]), nest(w, d - 1), g.const(w))
        return g.expr(w, 1)
    for _ in range(n):
        w = rng.choice([8, 16, 32])
        out.append(nest(w, rng.choice([2, 3, 3, 4])))
    # the same condition guarding several conditionals, conditionals in else branches, in pointers, in slices
    a, b, c = m.ExprId("a8", 8), m.ExprId("b8", 8), m.ExprId("c8", 8)
    i = lambda v: m.ExprInt(v, 8)
    out += [m.ExprCond(a, i(0x10), i(0x20)) + m.ExprCond(a, i(1), i(2)),
            m.ExprCond(a, i(0x33), m.ExprCond(b, i(0x11), i(0x22))),
            m.ExprCond(a, m.ExprCond(b, i(1), i(2)), m.ExprCond(b, i(3), m.ExprCond(c, i(4), i(5)))),
            m.ExprMem(m.ExprCond(a, m.ExprInt(0x100, 32), m.ExprCond(b, m.ExprInt(0x200, 32), m.ExprInt(0x300, 32))), 8),
            m.ExprCompose(m.ExprCond(a, i(1), i(2)), m.ExprCond(a, i(3), m.ExprCond(b, i(5), i(4))))[4:12],
            m.ExprCond(m.ExprCond(a, b, c), i(1), m.ExprCond(m.ExprCond(a, c, b), i(2), i(3))),
            m.ExprCond(a, i(1), i(1)) ^ m.ExprCond(b, a, m.ExprCond(a, b, c))]
    return out


def run(ctx):
    from miasm.expression.expression_helper import possible_values, CondConstraintZero, CondConstraintNotZero
    q = ctx.quick
    exprs = gen_exprs(ctx, 500 if q else 6000)
    items, meta = [], []
    for e in exprs:
        try:
            ja = X.to_json(e)
        except ValueError:
            continue
        try:
            pv = possible_values(e)
        except Exception as ex:
            ctx.violation("possible-values-raised", {"expr": str(e), "raised": type(ex).__name__ + ":" + str(ex)[:200]})
            continue
        if len(pv) > 300:
            continue
        sizes = X.ids_of(e)
        alts = []
        ok = True
        for cv in pv:
            cons = []
            for c in cv.constraints:
                if isinstance(c, CondConstraintZero):
                    z = True
                elif isinstance(c, CondConstraintNotZero):
                    z = False
                else:
                    ok = False
                    break
                cons.append({"e": X.to_json(c.expr), "z": z})
                sizes.update(X.ids_of(c.expr))
            sizes.update(X.ids_of(cv.value))
            alts.append({"cons": cons + [{"e": {"k": "int", "w": 1, "v": [1]}, "z": False}], "v": X.to_json(cv.value)})
        if not ok:
            ctx.violation("unknown-constraint-kind", {"expr": str(e)})
            continue
        total = sum(sizes.values())
        envs = X.all_envs(sizes) if total <= 9 else X.make_envs(sizes, ctx.rng, 14)
        items.append({"t": "pv", "a": ja, "alts": alts, "envs": [X.env_json(v, sizes) for v in envs]})
        meta.append((e, len(alts), envs))
    verdicts = X.judge(ctx, items, label="c09", chunk=1500)
    counts = {}
    for v, mt in zip(verdicts, meta):
        key = v.split(":")[0]
        counts[key] = counts.get(key, 0) + 1
        if key in ("noalt", "wrongalt"):
            k = int(v.split(":")[1]) - 1
            ctx.violation("possible-values-" + key, {"expr": str(mt[0]), "alternatives": mt[1], "env": mt[2][k], "verdict": v})
    ctx.traces += len(items)
    ctx.evaluations += sum(len(i["envs"]) * len(i["alts"]) for i in items)
    ctx.distinct = set(str(mt[0]) for mt in meta)
    for k in (0, len(meta) // 2, len(meta) - 1):
        ctx.sample({"expr": str(meta[k][0])[:200], "alternatives": meta[k][1], "envs": len(meta[k][2]), "tlc_verdict": verdicts[k]})
    ctx.notes["verdicts"] = counts
    ctx.assumptions += ["Expr.tla is the reference; an alternative whose constraint is undefined under the valuation counts as not enabled"]
    return ("expressions with conditionals nested in operands, slices, compositions, memory pointers, then/else branches and "
            "conditions (shared conditions included); every alternative of possible_values is evaluated by TLC under all valuations "
            "(<= 9 identifier bits) or boundary+random ones: one enabled alternative exists, every enabled one has the concrete value")
