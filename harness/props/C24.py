"""C24 VmMngr = byte map with permissions."""
from .. import core, sm, overlay
from ..vmadapter import VmAdapter


def S(xs):
    return core.tla_set(str(x) for x in xs)


def consts(n, sizes=(0, 1, 2, 3), accs=(0, 1, 2, 3), fills=(7,), vals=(1,), widths=(1, 2, 4)):
    return {"N": str(n), "Sizes": S(sizes), "Accs": S(accs), "Fills": S(fills), "Vals": S(vals),
            "Widths": S(widths)}


def pool(names):
    return "{o \\in Ops : o.op \\in %s}" % core.tla_set(core.tla_str(n) for n in names)


INV = ("TypeOK", "NoOverlap")
PROPS = ("FaultAtomic", "BpExact", "Recorded")
MAXP = "\nMaxPages == Cardinality(pages) <= %d\n"

MAP_OPS = ["AddPage", "RemovePage", "SetAccess", "GetAccess", "IsMapped", "GetMem", "SetMem", "AddCode",
           "CheckCode", "ClearFlags"]
EMU_OPS = ["AddPage", "SetEndian", "EmuRead", "EmuWrite", "ResetAccess", "ClearFlags"]
HOSTU_OPS = ["AddPage", "SetEndian", "GetU", "SetU", "EmuRead"]
BP_OPS = ["AddPage", "AddMemBp", "RemoveMemBp", "EmuRead", "EmuWrite", "CheckMemBp", "ResetAccess", "ClearFlags",
          "SetMem"]


BP_POOL = ('{o \\in Ops : \\/ o.op \\in {"EmuRead", "EmuWrite", "CheckMemBp", "ResetAccess", "ClearFlags"}'
           ' \\/ (o.op = "AddPage" /\\ o.b \\in {0, 3})'
           ' \\/ (o.op = "AddMemBp" /\\ o.s = 2 /\\ o.a \\in {1, 3})'
           ' \\/ (o.op = "RemoveMemBp" /\\ o.a \\in {1, 3})}')


def gen_op(rng, h, acfg):
    n = acfg["n"]
    a = rng.randrange(n)
    r = rng.random()
    w = rng.choice([1, 2, 4, 8])
    v0 = rng.randrange(1, 200)
    if r < 0.10:
        s = rng.choice([0, 1, 2, 3, 5, 8])
        return {"op": "AddPage", "b": a, "s": min(s, n - a), "acc": rng.choice([0, 1, 2, 3, 3]), "fill": rng.randrange(1, 250)}
    if r < 0.14:
        return {"op": "RemovePage", "a": a}
    if r < 0.20:
        return {"op": "SetAccess", "a": a, "acc": rng.choice([0, 1, 2, 3])}
    if r < 0.24:
        return {"op": "GetAccess", "a": a}
    if r < 0.30:
        k = rng.randrange(0, 5)
        return {"op": rng.choice(["IsMapped", "GetMem"]), "a": a, "n": min(k, n - a)}
    if r < 0.38:
        k = min(rng.randrange(1, 6), n - a)
        return {"op": "SetMem", "a": a, "q": [(v0 + i) % 256 for i in range(k)]}
    w = min(w, n - a)
    while w not in (1, 2, 4, 8):
        w -= 1
    if r < 0.46:
        return {"op": "GetU", "w": w, "a": a}
    if r < 0.54:
        return {"op": "SetU", "w": w, "a": a, "v": [(v0 + i) % 256 for i in range(w)]}
    if r < 0.66:
        return {"op": "EmuRead", "w": w, "a": a}
    if r < 0.78:
        return {"op": "EmuWrite", "w": w, "a": a, "v": [(v0 + i) % 256 for i in range(w)]}
    if r < 0.82:
        return {"op": "AddMemBp", "a": a, "s": min(rng.choice([1, 2, 4]), n - a), "kind": rng.choice([1, 2, 3])}
    if r < 0.85:
        return {"op": "RemoveMemBp", "a": a, "kind": rng.choice([1, 2, 3])}
    if r < 0.89:
        return {"op": "CheckMemBp"}
    if r < 0.92:
        return {"op": "ResetAccess"}
    if r < 0.95:
        return {"op": "ClearFlags"}
    if r < 0.97:
        return {"op": "SetEndian", "e": rng.choice(["little", "big"])}
    if r < 0.99 and a + 1 < n:
        return {"op": "AddCode", "a": a, "b": rng.randrange(a + 1, n + 1)}
    return {"op": "CheckCode"}


def run(ctx):
    overlay.activate(ctx, ("VmMngr",))
    q = ctx.quick
    # pool 1: mapping + host access
    n = 5 if q else 6
    ad = VmAdapter(n)
    sm.gen_replay(ctx, "VmMngr", consts(n, sizes=(0, 1, 2) if q else (0, 1, 2, 3), accs=(1, 3), widths=(1,)), 3 if q else 4, ad,
                  invariants=INV, properties=PROPS, gops=pool(MAP_OPS), label="gen_map",
                  extra_defs=MAXP % 3, constraints=("MaxPages",), timeout=3000)
    # pool 2: emulated typed access over layouts of <= 2 pages (setup phase), both byte orders
    n = 5 if q else 7
    ad = VmAdapter(n, base=0x7fff0000)
    sm.gen_replay(ctx, "VmMngr", consts(n, sizes=(0, 2) if q else (0, 2, 3), accs=(1, 3) if q else (1, 2, 3), widths=(1, 2) if q else (1, 2, 4)),
                  2, ad, invariants=INV, properties=PROPS, gops=pool(EMU_OPS), label="gen_emu",
                  setup=("AddPage", "SetEndian"), maxsetup=3, extra_defs=MAXP % 2, constraints=("MaxPages",),
                  timeout=3000)
    # pool 2b: host typed access (get_uN/set_uN) with byte order
    sm.gen_replay(ctx, "VmMngr", consts(n, sizes=(0, 3), accs=(3,), widths=(1, 2, 4)),
                  2, ad, invariants=INV, properties=PROPS, gops=pool(HOSTU_OPS), label="gen_hostu",
                  setup=("AddPage", "SetEndian"), maxsetup=3, extra_defs=MAXP % 2, constraints=("MaxPages",),
                  timeout=3000)
    if not q:
        n8 = 10
        ad8 = VmAdapter(n8, base=0x7fff0000)
        sm.gen_replay(ctx, "VmMngr", consts(n8, sizes=(5,), accs=(1, 3), widths=(8,)),
                      2, ad8, invariants=INV, properties=PROPS, gops=pool(EMU_OPS + ["GetU", "SetU"]), label="gen_emu64",
                      setup=("AddPage", "SetEndian"), maxsetup=3, extra_defs=MAXP % 2, constraints=("MaxPages",),
                      timeout=3000)
    # pool 3: memory breakpoints
    n = 6
    ad = VmAdapter(n, base=0xFFFFFFFFFFFF0000)
    sm.gen_replay(ctx, "VmMngr", consts(n, sizes=(3,), accs=(3,), widths=(1, 2)), 3 if q else 4, ad,
                  invariants=INV, properties=PROPS, gops=BP_POOL, label="gen_bp",
                  setup=("AddPage",), maxsetup=2, extra_defs=MAXP % 2, constraints=("MaxPages",), timeout=3000)
    # code -> spec: long random histories over 24 addresses, all operations mixed
    n = 24
    ad = VmAdapter(n, base=0x400000)
    ntr = 100 if q else 1200
    traces = sm.record_traces(ad, {"n": n}, gen_op, ntr, 60, ctx.rng)
    c = consts(n, sizes=(0,), accs=(0,), widths=(1,))
    sm.trace_validate(ctx, "VmMngr", c, traces)

    def corrupt(ts):
        ev = ts[0][-1]
        ev["st"]["mem"][3] = 99 if ev["st"]["mem"][3] != 99 else 98
        return "byte 3 changed"
    sm.selftest_trace_binding(ctx, "VmMngr", c, traces, corrupt)
    ctx.assumptions += ["emulated accesses are driven through vm_MEM_LOOKUP_*/vm_MEM_WRITE_* of the rebuilt VmMngr "
                        "extension via ctypes (the entry points generated code calls)",
                        "addresses do not wrap around 2^64"]
    return ("three operation pools (mapping+host access / emulated typed access over every layout of <=2 pages incl. "
            "zero-sized and adjacent pages with different permissions / memory breakpoints), every (state, op) replayed on "
            "the rebuilt VmMngr; 60-step mixed histories over 24 addresses validated by TLC")
