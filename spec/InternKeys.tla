----------------------------- MODULE InternKeys -----------------------------
(* Structural keys of miasm expressions (records), their normalisation and the    *)
(* width rule; evaluated once per key pool to produce the tables Intern.tla uses. *)
EXTENDS Integers, Sequences, FiniteSets, TLC, Json
CONSTANT Keys        \* sequence of structural keys (the pool of construction requests)
VARIABLE x

Pow2(n) == 2 ^ n
RECURSIVE Norm(_)
Norm(k) ==
  CASE k.k = "int" -> IF k.w > 28 THEN k ELSE [k EXCEPT !.v = k.v % Pow2(k.w)]   \* wide integers are given reduced (TLC integers are 32-bit)
    [] k.k = "id" -> k
    [] k.k = "mem" -> [k EXCEPT !.p = Norm(k.p)]
    [] k.k = "slice" -> [k EXCEPT !.a = Norm(k.a)]
    [] k.k = "cond" -> [k EXCEPT !.c = Norm(k.c), !.t = Norm(k.t), !.f = Norm(k.f)]
    [] k.k \in {"op", "compose"} -> [k EXCEPT !.a = [i \in 1..Len(k.a) |-> Norm(k.a[i])]]
    [] k.k = "assign" ->
         (* an assignment to a slice is an assignment to the whole destination of the composition *)
         (* of the untouched parts and the source                                                 *)
         IF k.d.k = "slice"
         THEN LET base == Norm(k.d.a) wb == k.bw
                  Sl(lo, hi) == [k |-> "slice", a |-> base, lo |-> lo, hi |-> hi]
                  parts == (IF k.d.lo > 0 THEN <<Sl(0, k.d.lo)>> ELSE <<>>) \o <<Norm(k.s)>>
                           \o (IF k.d.hi < wb THEN <<Sl(k.d.hi, wb)>> ELSE <<>>)
              IN [k |-> "assign", d |-> base, bw |-> wb,
                  s |-> IF Len(parts) = 1 THEN parts[1] ELSE [k |-> "compose", a |-> parts]]
         ELSE [k EXCEPT !.d = Norm(k.d), !.s = Norm(k.s)]

OneBit == {"==", "<u", "<s", "<=u", "<=s", "parity", "FLAG_EQ", "FLAG_SUB_CF"}
RECURSIVE SumW(_, _)
RECURSIVE WidthOf(_)
SumW(q, i) == IF i > Len(q) THEN 0 ELSE WidthOf(q[i]) + SumW(q, i + 1)
WidthOf(k) ==
  CASE k.k \in {"int", "id", "mem"} -> k.w
    [] k.k = "slice" -> k.hi - k.lo
    [] k.k = "cond" -> WidthOf(k.t)
    [] k.k = "compose" -> SumW(k.a, 1)
    [] k.k = "op" -> IF k.op \in OneBit THEN 1 ELSE WidthOf(k.a[1])
    [] k.k = "assign" -> WidthOf(k.d)            \* of the normalised key: the whole destination

N == Len(Keys)
Tables ==
  LET nk == [i \in 1..N |-> Norm(Keys[i])]
      rep == [i \in 1..N |-> CHOOSE j \in 1..N : nk[j] = nk[i] /\ \A l \in 1..(j - 1) : nk[l] # nk[i]]
      wd == [i \in 1..N |-> WidthOf(nk[i])]
  IN [rep |-> rep, w |-> wd]
Init == x = 0 /\ PrintT("TABLES " \o ToJson(Tables))
Next == UNCHANGED x
=============================================================================
