from .. import jitprops


def run(ctx):
    return jitprops.c22(ctx)
