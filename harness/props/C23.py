from .. import jitprops


def run(ctx):
    return jitprops.c23(ctx)
