"""C30 AsmCFG edges mirror block constraints; pendings list absent destinations."""
from .. import core, sm


class H(object):
    pass


class Adapter(object):
    def new(self, acfg):
        from miasm.core.locationdb import LocationDB
        from miasm.core.asmblock import AsmCFG
        h = H()
        h.db = LocationDB()
        h.lk = {}
        h.g = AsmCFG(h.db)
        h.others = acfg["others"]
        return h

    def loc(self, h, name):
        if name not in h.lk:
            h.lk[name] = h.db.add_location(name=name)
        return h.lk[name]

    def mkblock(self, h, l, bto):
        from miasm.core.asmblock import AsmBlock, AsmConstraint
        b = AsmBlock(h.db, self.loc(h, l))
        for d, k in bto:
            b.bto.add(AsmConstraint(self.loc(h, d), k))
        return b

    def apply(self, h, o):
        from miasm.core.asmblock import AsmCFG, AsmConstraint
        g = h.g
        op = o["op"]
        try:
            if op == "AddBlock":
                return "true" if g.add_block(self.mkblock(h, o["l"], o["bto"])) else "false"
            if op == "AddEdge":
                g.add_edge(self.loc(h, o["s"]), self.loc(h, o["d"]), o["k"])
            elif op == "DelEdge":
                g.del_edge(self.loc(h, o["s"]), self.loc(h, o["d"]))
            elif op == "DelBlock":
                g.del_block(g.loc_key_to_block(self.loc(h, o["l"])))
            elif op == "Merge":
                other = AsmCFG(h.db)
                for b in h.others[o["k"] - 1]:
                    other.add_block(self.mkblock(h, b["l"], b["bto"]))
                g.merge(other)
            elif op == "MutateBto":
                blk = g.loc_key_to_block(self.loc(h, o["l"]))
                blk.bto = set(AsmConstraint(self.loc(h, d), k) for d, k in o["bto"])
            elif op == "Rebuild":
                g.rebuild_edges()
            else:
                raise core.MachineryError(op)
        except AssertionError:
            return "AssertionError"
        return "none"

    def project(self, h):
        g = h.g
        inv = {v: k for k, v in h.lk.items()}
        present = set()
        cons = set()
        for b in g.blocks:
            present.add(inv[b.loc_key])
            for c in b.bto:
                cons.add((inv[b.loc_key], inv[c.loc_key], c.c_t))
        edges = set((inv[s], inv[d], k) for (s, d), k in g.edges2constraint.items())
        gedges = set((inv[s], inv[d]) for s, d in g.edges())
        if gedges != set((s, d) for s, d, _ in edges):
            edges.add(("graph-edges-differ-from-edges2constraint", "", ""))
        for s, d in gedges:      # successor/predecessor views agree with the edge list
            if h.lk[d] not in g.successors(h.lk[s]) or h.lk[s] not in g.predecessors(h.lk[d]):
                edges.add(("succ-pred-view-differs", s, d))
        pend = set()
        for d, ws in g.pendings.items():
            for w in ws:
                pend.add((inv[d], inv[w.waiter.loc_key], w.constraint))
        return {"present": present, "cons": cons, "edge": edges, "pend": pend,
                "nodes": set(inv[n] for n in g.nodes())}


def tla_others(others):
    def blk(b):
        return "[l |-> %s, bto |-> %s]" % (core.tla_str(b["l"]), core.tla_set(
            "<<%s, %s>>" % (core.tla_str(d), core.tla_str(k)) for d, k in b["bto"]))
    return "<<" + ", ".join(core.tla_set(blk(b) for b in o) for o in others) + ">>"


def consts(locs, maxcons, others):
    return {"Loc": core.tla_set(core.tla_str(l) for l in locs), "Kind": '{"c_to", "c_next"}',
            "MaxCons": str(maxcons), "Others": tla_others(others)}


OTHERS = [
    [{"l": "L1", "bto": [["L2", "c_next"]]}, {"l": "L2", "bto": [["L1", "c_to"], ["L3", "c_next"]]}],
    [{"l": "L3", "bto": [["L3", "c_to"]]}],
    [{"l": "L2", "bto": [["L1", "c_to"]]}, {"l": "L1", "bto": []}],
]
INV = ("TypeOK", "EdgesMirror", "PendingsExact", "NodesAreBlocks")
ENDS = '(e.o.op = "Merge" /\\ (dirty \\/ MergeConflicts(G, Others[e.o.k])))'


def gen_op(rng, h, acfg):
    locs = acfg["locs"]
    kinds = ["c_to", "c_next"]
    g = h.g
    inv = {v: k for k, v in h.lk.items()}
    present = [inv[b.loc_key] for b in g.blocks]

    def bto():
        ds = rng.sample(locs, rng.randrange(0, 4))
        return [[d, rng.choice(kinds)] for d in ds]
    for _ in range(30):
        r = rng.random()
        if getattr(h, "dirty", False):
            if r < 0.5:
                h.dirty = False
                return {"op": "Rebuild"}
            r = 0.8
        if r < 0.3 or not present:
            return {"op": "AddBlock", "l": rng.choice(locs), "bto": bto()}
        if r < 0.45:
            return {"op": "AddEdge", "s": rng.choice(present), "d": rng.choice(present), "k": rng.choice(kinds)}
        if r < 0.58:
            es = [(inv[s], inv[d]) for s, d in g.edges() if inv[s] in present and inv[d] in present]
            if es:
                s, d = rng.choice(es)
                return {"op": "DelEdge", "s": s, "d": d}
            continue
        if r < 0.72:
            return {"op": "DelBlock", "l": rng.choice(present)}
        if r < 0.78 and not getattr(h, "dirty", False):
            return {"op": "Merge", "k": rng.randrange(len(h.others)) + 1}
        if r < 0.9:
            l = rng.choice(present)
            new = bto()
            cur = set((inv[c.loc_key], c.c_t) for c in g.loc_key_to_block(h.lk[l]).bto)
            if set(map(tuple, new)) == cur:
                continue
            h.dirty = True
            return {"op": "MutateBto", "l": l, "bto": new}
        return {"op": "Rebuild"}
    return {"op": "Rebuild"}


def run(ctx):
    ad = Adapter()
    locs = ["L1", "L2", "L3"]
    if ctx.quick:
        c = consts(locs, 2, OTHERS)
        sm.gen_replay(ctx, "AsmCFG", c, 3, ad, acfg={"others": OTHERS}, invariants=INV)
    else:
        c = consts(locs, 2, OTHERS)
        sm.gen_replay(ctx, "AsmCFG", c, 4, ad, acfg={"others": OTHERS}, invariants=INV, timeout=3000)
    bl = ["B%d" % i for i in range(6)]
    rng = ctx.rng
    others = []
    for _ in range(5):
        o = []
        for l in rng.sample(bl, rng.randrange(1, 4)):
            o.append({"l": l, "bto": [[d, rng.choice(["c_to", "c_next"])] for d in rng.sample(bl, rng.randrange(0, 3))]})
        others.append(o)
    ntr = 150 if ctx.quick else 1500
    traces = sm.record_traces(ad, {"others": others, "locs": bl}, gen_op, ntr, 30, rng)
    c2 = consts(bl, 0, others)
    sm.trace_validate(ctx, "AsmCFG", c2, traces, endsat=ENDS)

    def corrupt(ts):
        ev = ts[0][0]
        ev["st"]["pend"] = list(ev["st"]["pend"]) + [["B0", "B1", "c_to"]]
        return "extra pending"
    sm.selftest_trace_binding(ctx, "AsmCFG", c2, traces, corrupt, endsat=ENDS)
    ctx.assumptions += ["blocks carry at most one constraint per destination", "edges are only added/removed between present blocks",
                        "merged graphs do not conflict on edge kinds"]
    return ("every (graph state, op) over 3 loc_keys, constraint kinds c_to/c_next, self-loops, merges, direct bto edits + "
            "rebuild_edges replayed on AsmCFG; random 30-step histories over 6 loc_keys validated by TLC")
