"""C33 StrPatchwork = zero-padded growable byte string."""
from .. import core, sm


def R(t, b=(), n=0):
    return {"t": t, "b": list(b), "n": n}


class Adapter(object):
    def new(self, acfg):
        from miasm.loader.strpatchwork import StrPatchwork
        return StrPatchwork()

    def apply(self, sp, o):
        op = o["op"]
        try:
            if op == "GetIdx":
                return R("bytes", sp[o["i"]])
            if op == "GetSlice":
                return R("bytes", sp[o["a"]:o["b"]])
            if op == "GetAll":
                return R("bytes", bytes(sp))
            if op == "Len":
                return R("int", n=len(sp))
            if op == "SetIdx":
                sp[o["i"]] = bytes(o["d"])
                return R("none")
            if op == "SetSlice":
                sp[o["a"]:o["b"]] = bytes(o["d"])
                return R("none")
            if op == "IAdd":
                sp2 = sp
                sp2 += bytes(o["d"])
                assert sp2 is sp
                return R("none")
            if op == "Find":
                return R("int", n=sp.find(bytes(o["p"]), o["i"]))
            if op == "RFind":
                return R("int", n=sp.rfind(bytes(o["p"]), o["i"]))
            if op == "Contains":
                return R("bool", n=1 if bytes(o["p"]) in sp else 0)
        except (IndexError, KeyError, ValueError) as ex:
            return R("EXC:" + type(ex).__name__)
        raise ValueError(op)

    def project(self, sp):
        return {"s": list(bytes(sp))}


def seqs(xs):
    return core.tla_set(core.tla_val(list(x)) for x in xs)


def consts(alpha, idx, pats, datas, maxlen):
    return {"Alpha": core.tla_set(map(str, alpha)), "Pad": "0",
            "Idx": core.tla_set(map(str, idx)), "Pats": seqs(pats), "Datas": seqs(datas),
            "MaxLen": str(maxlen)}


def gen_op(rng, sp, acfg):
    n = len(sp)
    i = rng.randrange(0, n + 4)
    d = [rng.choice([1, 2, 3, 0]) for _ in range(rng.randrange(1, 5))]
    p = [rng.choice([1, 2, 3, 0]) for _ in range(rng.randrange(1, 3))]
    r = rng.random()
    if r < 0.12:
        return {"op": "GetIdx", "i": i}
    if r < 0.24:
        a = rng.randrange(0, n + 3)
        return {"op": "GetSlice", "a": a, "b": rng.randrange(0, n + 5)}
    if r < 0.30:
        return {"op": rng.choice(["GetAll", "Len"])}
    if n > 40:
        return {"op": "Find", "p": p, "i": rng.randrange(0, n)}
    if r < 0.45:
        return {"op": "SetIdx", "i": i, "d": d}
    if r < 0.55:
        a = rng.randrange(0, n + 3)
        return {"op": "SetSlice", "a": a, "b": a + rng.randrange(0, 4), "d": d}
    if r < 0.68:
        return {"op": "IAdd", "d": d}
    if r < 0.80:
        return {"op": "Find", "p": p, "i": rng.randrange(0, n + 2)}
    if r < 0.90:
        return {"op": "RFind", "p": p, "i": rng.randrange(0, n + 2)}
    return {"op": "Contains", "p": p}


INV = ("TypeOK",)
PROPS = ("ReadsDoNotWrite", "WritesAreLocal")


def run(ctx):
    ad = Adapter()
    pats = [(1,), (2,), (1, 2), (0,), (2, 0)]
    datas = [(1,), (2,), (1, 2)]
    if ctx.quick:
        c = consts([1, 2], range(0, 6), pats, datas, 5)
        sm.gen_replay(ctx, "StrPatchwork", c, 4, ad, invariants=INV, properties=PROPS,
                      constraints=("LenBound",))
    else:
        c = consts([1, 2], range(0, 8), pats, datas + [(2, 2, 1)], 7)
        sm.gen_replay(ctx, "StrPatchwork", c, 6, ad, invariants=INV, properties=PROPS,
                      constraints=("LenBound",))
    ntr = 200 if ctx.quick else 3000
    traces = sm.record_traces(ad, None, gen_op, ntr, 40, ctx.rng)
    big = consts([1, 2, 3], range(0, 1), [], [], 100)
    sm.trace_validate(ctx, "StrPatchwork", big, traces)

    def corrupt(ts):
        ev = ts[0][-1]
        ev["st"]["s"] = list(ev["st"]["s"]) + [9]
        return "extra byte"
    sm.selftest_trace_binding(ctx, "StrPatchwork", big, traces, corrupt)
    ctx.assumptions += ["non-negative indices; slices with explicit stop and start <= stop; step 1"]
    return ("every (buffer content, operation) with content over {pad,1,2} up to the length bound replayed on "
            "StrPatchwork; random 40-step histories validated by TLC; distinct = distinct (state, op) edges")
