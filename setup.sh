#!/bin/sh
# Offline setup: everything is built from files on disk.
set -e
cd "$(dirname "$0")"
mkdir -p evidence replays
# z3 python bindings for /venv's python (used by C05/C39/C41), from the offline wheelhouse
if [ ! -d .deps/z3 ]; then
  /venv/bin/pip install -q --no-index --find-links /opt/veriftools/wheels --target .deps z3-solver >/dev/null 2>&1 || echo "z3-solver wheel not installed (checks needing it will report it)"
fi
# syntax-check every specification
for f in spec/*.tla spec/lib/*.tla; do
  [ -f "$f" ] || continue
  ( cd "$(dirname "$f")" && java -cp /opt/veriftools/tla/tla2tools.jar:/opt/veriftools/tla/CommunityModules-deps.jar -DTLA-Library=/verif/spec:/verif/spec/lib tla2sany.SANY "$(basename "$f")" >/dev/null 2>&1 ) || { echo "SANY failed on $f"; exit 1; }
done
echo setup ok
