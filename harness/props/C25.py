"""C25 binary streams return exactly the underlying bits: BinStream.tla bound to bin_stream_str / _file / _vm."""
import io

from .. import core, sm, overlay

BASE = 5


class H(object):
    pass


class Adapter(object):
    def __init__(self, kind):
        self.kind = kind

    def new(self, acfg):
        h = H()
        h.data = bytearray()
        h.bs = None
        h.atomic = False
        self._make(h)
        return h

    def _make(self, h):
        from miasm.core.bin_stream import bin_stream_str, bin_stream_file, bin_stream_vm
        if self.kind == "str":
            h.bs = bin_stream_str(h.data, base_address=BASE)        # the stream keeps a reference: patches are visible
        elif self.kind == "file":
            h.f = io.BytesIO(bytes(h.data))
            h.bs = bin_stream_file(h.f, offset=BASE, base_address=BASE)
        else:
            from miasm.jitter.VmMngr import Vm
            from miasm.jitter.csts import PAGE_READ, PAGE_WRITE
            h.vm = Vm()
            h.vm.set_little_endian()
            if h.data:
                h.vm.add_memory_page(BASE, PAGE_READ | PAGE_WRITE, bytes(h.data), "src")
            h.bs = bin_stream_vm(h.vm)

    def apply(self, h, o):
        from miasm.core.utils import LITTLE_ENDIAN, BIG_ENDIAN
        op = o["op"]
        try:
            if op == "Load":
                h.data = bytearray(o["q"])
                self._make(h)
                return "ok"
            if op == "GetBytes":
                r = h.bs.getbytes(o["a"], o["l"])
                return "b:" + ",".join(str(x) for x in bytes(r))
            if op == "GetBits":
                return "i:%d" % h.bs.getbits(o["s"], o["n"])
            if op == "GetU":
                f = {8: h.bs.get_u8, 16: h.bs.get_u16, 32: h.bs.get_u32}[o["w"]]
                v = f(o["a"], LITTLE_ENDIAN if o["e"] == "le" else BIG_ENDIAN)
                return "u:" + ",".join(str(x) for x in v.to_bytes(o["w"] // 8, "big"))
            if op == "Enter":
                h.bs.enter_atomic_mode()
                return "ok"
            if op == "Leave":
                h.bs.leave_atomic_mode()
                return "ok"
            if op == "Mutate":
                i, v = o["i"] - 1, o["v"]
                h.data[i] = v
                if self.kind == "file":
                    pos = h.f.tell()
                    h.f.seek(i)
                    h.f.write(bytes([v]))
                    h.f.seek(pos)
                elif self.kind == "vm":
                    h.vm.set_mem(BASE + i, bytes([v]))
                return "ok"
        except IOError:
            return "EXC:IOError"
        raise core.MachineryError(op)

    def project(self, h):
        # ground truth: the source itself (not read through the stream, so that the cache is not disturbed)
        if self.kind == "file":
            cur = h.f.getvalue()
        elif self.kind == "vm":
            cur = h.vm.get_mem(BASE, len(h.data)) if h.data else b""
        else:
            cur = bytes(h.data)
        if bytes(cur) != bytes(h.data):
            raise AssertionError("source content diverged from what was written")
        return {"len": len(cur), "all": "b:" + ",".join(str(x) for x in cur)}


def consts(alpha, maxlen, bitlens):
    return {"Alphabet": core.tla_set(str(a) for a in alpha), "MaxLen": str(maxlen), "Base": str(BASE),
            "BitLens": core.tla_set(str(b) for b in bitlens)}


def gen_op(rng, h, acfg):
    n = len(h.data)
    c = rng.random()
    if not h.data and c < 0.8 and not getattr(h, "atomic", False):
        return {"op": "Load", "q": [rng.choice(acfg["alpha"]) for _ in range(rng.randrange(1, acfg["maxlen"] + 1))]}
    a = rng.randrange(BASE - 1, BASE + n + 2)
    if c < 0.25:
        return {"op": "GetBytes", "a": a, "l": rng.randrange(1, 4)}
    if c < 0.5:
        return {"op": "GetBits", "s": rng.randrange(8 * BASE - 2, 8 * (BASE + n) + 3), "n": rng.choice(acfg["bitlens"])}
    if c < 0.65:
        return {"op": "GetU", "w": rng.choice([8, 16, 32]), "a": a, "e": rng.choice(["le", "be"])}
    if c < 0.85:
        if h.atomic:
            h.atomic = False
            return {"op": "Leave"}
        h.atomic = True
        return {"op": "Enter"}
    if not h.atomic and n:
        return {"op": "Mutate", "i": rng.randrange(1, n + 1), "v": rng.choice(acfg["alpha"])}
    return {"op": "GetBytes", "a": a, "l": 1}


def run(ctx):
    overlay.activate(ctx, ("VmMngr",))
    q = ctx.quick
    alpha = [0, 129, 255]
    bitlens = [0, 1, 3, 7, 8, 9, 12, 17]
    maxlen = 2 if q else 3
    c = consts(alpha[1:] if q else alpha, maxlen, bitlens)
    for kind in ("str", "file", "vm"):
        ad = Adapter(kind)
        sm.gen_replay(ctx, "BinStream", c, 4 if q else 5, ad, acfg={}, label="gen_" + kind, invariants=("TypeOK",),
                      properties=("ReadsPure",), setup=("Load",), maxsetup=1, timeout=3000)
    big = {"alpha": [0, 1, 0x7f, 0x80, 0x81, 0xaa, 0xff], "maxlen": 9, "bitlens": [0, 1, 2, 3, 5, 7, 8, 9, 12, 16, 17, 23]}
    cb = consts(big["alpha"], big["maxlen"], big["bitlens"])
    for kind in ("str", "file", "vm"):
        ad = Adapter(kind)
        traces = sm.record_traces(ad, big, gen_op, 100 if q else 1000, 40, ctx.rng)
        sm.trace_validate(ctx, "BinStream", cb, traces, label="trace_" + kind)
    sm.selftest_trace_binding(ctx, "BinStream", cb, traces, lambda ts: ts[0][-1].__setitem__("ret", "b:1,2,3") or "result replaced")
    ctx.assumptions += ["sources: a patchable byte buffer, a file object, emulator memory (VmMngr rebuilt from the working tree); parsed "
                        "PE/ELF containers are not driven", "the source only changes outside atomic sections",
                        "zero-length byte reads are not exercised (the property speaks of reads outside the source)"]
    return ("every source content up to 2-3 bytes over {0x00,0x81,0xff} at base address 5, every byte / bit-field / integer read inside, "
            "across and outside the bounds, in and out of atomic mode, with patches of the source between atomic sections (the ghost "
            "'last cached key' makes read-leave-patch-enter-read histories distinct states); replayed on bin_stream_str, "
            "bin_stream_file and bin_stream_vm; recorded random histories over 9-byte sources validated by TLC")
