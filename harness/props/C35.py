"""C35 C type layout matches the platform ABI: CLayout.tla states the System V x86-64 (and GCC packed) layout; the layouts computed by
GCC itself and by miasm's C type managers for random declarations are both judged by TLC (GCC binds the specification to the
platform), as are member accesses translated to expressions and back."""
import json
import os
import subprocess

from .. import core
from .. import exprjson as X

BASES = [("char", 1, 1), ("short", 2, 2), ("int", 4, 4), ("long", 8, 8), ("unsigned char", 1, 1), ("unsigned short", 2, 2),
         ("unsigned int", 4, 4), ("unsigned long", 8, 8), ("long long", 8, 8), ("float", 4, 4), ("double", 8, 8)]


class Decls(object):
    """one set of named aggregates; later ones may use earlier ones"""

    def __init__(self, rng, tag, simple=False):
        self.rng = rng
        self.aggs = []          # (name, kind, fields [(fname, ctext-prefix, ctext-suffix, tree)])
        n = rng.randrange(1, 4) if not simple else 1
        for i in range(n):
            kind = rng.choice(["struct", "struct", "union"])
            name = "%s_%d" % (tag, i)
            fields = []
            for f in range(rng.randrange(1, 5)):
                fields.append(("f%d" % f,) + self.field_type(simple))
            self.aggs.append((name, kind, fields))

    def tree(self, idx):
        name, kind, fields = self.aggs[idx]
        return {"k": kind, "fields": [f[3] for f in fields]}

    def field_type(self, simple):
        rng = self.rng
        c = rng.random()
        if c < 0.45 or (simple and c < 0.8):
            b = rng.choice(BASES)
            pre, tree = b[0], {"k": "base", "size": b[1], "align": b[2]}
        elif c < 0.55:
            pre, tree = rng.choice(["char *", "void *", "long *"]), {"k": "ptr"}
        elif c < 0.8 and self.aggs:
            i = rng.randrange(len(self.aggs))
            pre, tree = "%s %s" % (self.aggs[i][1], self.aggs[i][0]), self.tree(i)
        elif self.aggs and c < 0.9:
            i = rng.randrange(len(self.aggs))
            pre, tree = "%s %s *" % (self.aggs[i][1], self.aggs[i][0]), {"k": "ptr"}
        else:
            b = rng.choice(BASES)
            pre, tree = b[0], {"k": "base", "size": b[1], "align": b[2]}
        suf = ""
        if rng.random() < 0.3:
            dims = [rng.randrange(1, 5) for _ in range(1 if rng.random() < 0.75 else 2)]
            for d in reversed(dims):
                tree = {"k": "array", "elem": tree, "n": d}
            suf = "".join("[%d]" % d for d in dims)
        return pre, suf, tree

    def ctext(self, packed):
        out = []
        for name, kind, fields in self.aggs:
            body = " ".join("%s %s%s;" % (pre, fn, suf) for fn, pre, suf, _ in fields)
            out.append("%s %s { %s }%s;" % (kind, name, body, " __attribute__((packed))" if packed else ""))
        return "\n".join(out)


def gcc_layouts(ctx, sets, packed):
    """compile one program printing sizeof / _Alignof / offsetof of every aggregate of every set"""
    d = ctx.sub("gcc_%s" % ("packed" if packed else "abi"))
    lines = ["#include <stdio.h>", "#include <stddef.h>"]
    for s in sets:
        lines.append(s.ctext(packed))
    lines.append("int main(void) {")
    for s in sets:
        for name, kind, fields in s.aggs:
            lines.append('printf("%s %%zu %%zu", sizeof(%s %s), _Alignof(%s %s));' % (name, kind, name, kind, name))
            for fn, _, _, _ in fields:
                lines.append('printf(" %%zu:%%zu", offsetof(%s %s, %s), sizeof(((%s %s *)0)->%s));' % (kind, name, fn, kind, name, fn))
            lines.append('printf("\\n");')
    lines.append("return 0; }")
    src = os.path.join(d, "l.c")
    with open(src, "w") as f:
        f.write("\n".join(lines))
    exe = os.path.join(d, "l")
    r = subprocess.run(["gcc", "-O0", "-w", "-o", exe, src], capture_output=True, text=True)
    if r.returncode != 0:
        raise core.MachineryError("gcc failed: " + r.stderr[:500])
    out = subprocess.run([exe], capture_output=True, text=True, timeout=60).stdout
    res = {}
    for l in out.splitlines():
        p = l.split()
        res[p[0]] = {"size": int(p[1]), "align": int(p[2]), "offs": [int(x.split(":")[0]) for x in p[3:]],
                     "sizes": [int(x.split(":")[1]) for x in p[3:]]}
    return res


def random_path(rng, tree):
    """a path from the root aggregate down to a scalar (or, sometimes, stopping on an aggregate / array)"""
    path, c = [], ""
    t = tree
    first = True
    while True:
        if t["k"] in ("struct", "union"):
            i = rng.randrange(len(t["fields"]))
            path.append({"kind": "f", "n": i + 1})
            c += ("->" if first else ".") + "f%d" % i
            first = False
            t = t["fields"][i]
        elif t["k"] == "array":
            i = rng.randrange(t["n"])
            path.append({"kind": "i", "n": i})
            c += "[%d]" % i
            t = t["elem"]
        else:
            return path, c
        if t["k"] in ("struct", "union", "array") and rng.random() < 0.08:
            return path, c


def run(ctx):
    from miasm.core.ctypesmngr import CAstTypes, CTypeStruct, CTypeUnion, CTypePtr
    from miasm.core.objc import CTypesManagerNotPacked, CTypesManagerPacked, CHandler
    from miasm.arch.x86.ctype import CTypeAMD64_unk
    from miasm.expression.expression import ExprId
    from miasm.expression.simplifications import expr_simp
    q = ctx.quick
    rng = ctx.rng
    nsets = 600 if q else 5000
    sets = [Decls(rng, "T%d" % i, simple=(i % 5 == 0)) for i in range(nsets)]
    items, meta = [], []
    for packed, cls in ((False, CTypesManagerNotPacked), (True, CTypesManagerPacked)):
        gcc = gcc_layouts(ctx, sets, packed)
        for s in sets:
            types = []
            text = s.ctext(False)
            ast = CAstTypes()
            mngr = None
            try:
                ast.add_c_decl(text)
                mngr = cls(ast, CTypeAMD64_unk())
            except Exception as ex:
                ctx.violation("declaration-rejected", {"c": text, "raised": type(ex).__name__ + ":" + str(ex)[:200]})
                continue
            for idx, (name, kind, fields) in enumerate(s.aggs):
                m = {"size": -1, "align": -1, "offs": [], "sizes": []}
                raised = ""
                try:
                    objc = mngr.get_objc((CTypeStruct if kind == "struct" else CTypeUnion)(name))
                    fl = [f for f in objc.fields if not f[0].startswith("__PAD__")]
                    m = {"size": objc.size, "align": objc.align, "offs": [f[2] for f in fl], "sizes": [f[3] for f in fl]}
                except Exception as ex:
                    raised = type(ex).__name__ + ":" + str(ex)[:100].replace('"', "'")
                g = gcc[name]
                types.append({"name": name, "t": s.tree(idx), "gcc": g, "miasm": m, "raised": raised})
            # member accesses through a pointer to the last aggregate
            accesses = []
            root = len(s.aggs) - 1
            rname, rkind, _ = s.aggs[root]
            try:
                ptr = mngr.get_objc(CTypePtr((CTypeStruct if rkind == "struct" else CTypeUnion)(rname)))
                p = ExprId("p", 64)
                handler = CHandler(mngr, expr_types={p: set([ptr])}, C_types={"p": ptr})
            except Exception:
                handler = None
            seen = set()
            for _ in range(6 if handler else 0):
                path, c = random_path(rng, s.tree(root))
                c = "p" + c
                if c in seen:
                    continue
                seen.add(c)
                a = {"root": root + 1, "path": path, "c": c, "moff": -1, "msize": -1, "back": False, "raised": ""}
                try:
                    expr, ctype = handler.c_to_expr_and_type(c)
                    expr = expr_simp(expr)
                    ptr_e, a["msize"] = (expr.ptr, expr.size // 8) if expr.is_mem() else (expr, 0)
                    if ptr_e == p:
                        a["moff"] = 0
                    elif ptr_e.is_op("+") and len(ptr_e.args) == 2 and ptr_e.args[0] == p and ptr_e.args[1].is_int():
                        a["moff"] = int(ptr_e.args[1])
                    else:
                        a["moff"] = -2
                    try:
                        for c_back, t_back in handler.expr_to_c_and_types(expr):
                            e2, t2 = handler.c_to_expr_and_type(c_back)
                            if expr_simp(e2) == expr and t2 == ctype:
                                a["back"] = True
                    except Exception as ex:
                        a["back"] = False
                        a["backraised"] = type(ex).__name__ + ":" + str(ex)[:80]
                except Exception as ex:
                    a["raised"] = type(ex).__name__ + ":" + str(ex)[:80].replace('"', "'")
                accesses.append(a)
            for a in accesses:
                a.pop("backraised", None)
            items.append({"packed": packed, "types": types, "accesses": accesses})
            meta.append((packed, text))
    verdicts = X.judge(ctx, items, label="c35", module="CLayoutJudge", chunk=400)
    counts = {}
    for v, (packed, text), it in zip(verdicts, meta, items):
        key = ("packed:" if packed else "abi:") + ":".join(v.split(":")[:1] + v.split(":")[2:3])
        counts[key] = counts.get(key, 0) + 1
        if v.startswith("model"):
            raise core.MachineryError("CLayout.tla disagrees with GCC: %s on\n%s" % (v, text))
        if v.startswith("nested") and "accesses-across-nested-arrays" in ctx.findings:
            ctx.known("accesses-across-nested-arrays", "%s in %r" % (v, text))
            continue
        if v != "ok":
            ctx.violation("layout-or-access-differs", {"manager": "packed" if packed else "not packed", "declarations": text, "verdict": v,
                                                       "accesses": [a["c"] for a in it["accesses"]]})
    ctx.traces += len(items)
    ctx.evaluations += sum(len(i["types"]) + len(i["accesses"]) for i in items)
    ctx.distinct = set(meta)
    for k in (0, len(meta) // 2, len(meta) - 1):
        ctx.sample({"declarations": meta[k][1], "packed": meta[k][0], "tlc_verdict": verdicts[k]})
    ctx.notes["verdicts"] = counts
    ctx.assumptions += ["declarations: up to 3 named structs / unions with up to 4 members: integer, floating and pointer types, earlier "
                        "aggregates, arrays (1 or 2 dimensions) of those; no bit-fields, no anonymous members",
                        "GCC on this machine (x86-64 System V) is the platform: CLayout.tla is checked against it on every declaration"]
    return ("%d random declaration sets x {not packed, packed}: sizeof / _Alignof / offsetof / member sizes from GCC and size / align / "
            "fields from CTypesManagerNotPacked / CTypesManagerPacked are both compared by TLC with CLayout.tla; up to 6 member accesses "
            "per set (p->a.b[i]...) are translated by CHandler.c_to_expr: offset and size must be the specification's, and "
            "expr_to_c_and_types must give back an access of the same expression and type" % nsets)
