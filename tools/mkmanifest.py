#!/venv/bin/python
"""Rebuild /verif/MANIFEST.json from harness/registry.py (keeps it valid at all times)."""
import json, os, sys
HERE = os.path.dirname(os.path.dirname(os.path.abspath(__file__)))
sys.path.insert(0, HERE)
from harness import registry

props = [json.loads(l) for l in open(os.path.join(HERE, "properties.jsonl"))]
ids = [p["id"] for p in props]
checks = []
for pid in ids:
    if pid in registry.CLAIMED:
        c = registry.CLAIMED[pid]
        checks.append({
            "property_id": pid,
            "quick_cmd": "./check %s --tier quick" % pid,
            "thorough_cmd": "./check %s --tier thorough" % pid,
            "evidence_file": "/verif/evidence/%s.json" % pid,
            "replay_cmd_template": "./check %s --replay {path}" % pid,
            "engine": c["engine"],
            "level_claimed": {"category": c.get("category", "model_checking"), "text": c["text"],
                              "design_ref": c["design_ref"]},
            "level_note": c["note"],
            "technique": c["technique"],
        })
na = []
for pid in ids:
    if pid in registry.CLAIMED:
        continue
    if pid in registry.NA_PERMANENT:
        na.append({"property_id": pid, "reason": registry.NA_PERMANENT[pid]})
    else:
        na.append({"property_id": pid, "reason": "designed in DESIGN.md but its TLA+ check is not built/validated yet; not claimed rather than registered weak"})
engines = {}
for pid, c in registry.CLAIMED.items():
    engines.setdefault(c["engine"], []).append(pid)
SM_ENGINES = {"Alloc", "AsmCFG", "BinStream", "BoundedDict", "Graph", "Intern", "Interval", "LibImp", "LocationDB", "StrPatchwork",
              "SymbMem", "VmMngr"}
man = {
    "version": 1,
    "setup_cmd": "sh ./setup.sh",
    "hooks": {
        "guard": "MIASM_VERIF",
        "enable": "no hooks inside /repo are needed: events are recorded by wrapping public methods from the harness process; checks import /repo's working tree (PYTHONPATH) and rebuild C extensions into a scratch overlay",
        "baseline_off_cmd": "cd /repo && /venv/bin/python -m pytest -ra -q -p no:cacheprovider --timeout=900 --continue-on-collection-errors",
        "source_commits": [],
        "add_only": True,
    },
    "engines": [{"name": k, "path": "/verif/spec/%s.tla" % k, "serves_properties": sorted(v),
                 "kind_free_text": ("TLA+ specification + TLC; bound to the code by harness/sm.py (spec->code replay of every TLC-enumerated "
                                    "edge, code->spec trace validation of recorded histories)"
                                    if k in SM_ENGINES else
                                    "TLA+ reference specification evaluated by TLC as the judge of events recorded from the real code "
                                    "(batch trace validation through the *Judge.tla module, harness/exprjson.judge)")}
                for k, v in sorted(engines.items())],
    "checks": checks,
    "not_applicable": na,
    "notes": "All claimed checks decide their property with an explicit TLA+ specification checked by TLC and bound to the implementation by conformance (see DESIGN.md). known_findings.txt lists genuine defects (fixed: entries are repaired by fix: commits in /repo).",
}
json.dump(man, open(os.path.join(HERE, "MANIFEST.json"), "w"), indent=1)
print("claimed", len(checks), "not_applicable", len(na))
