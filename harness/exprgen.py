"""Seeded generators of well-formed miasm expressions (random trees + rule-shaped forms)."""
import itertools

WIDTHS = [1, 8, 16, 32, 64]
ODD = [3, 7, 24, 128]
NARY = ["+", "*", "&", "|", "^"]
SHIFT = ["<<", ">>", "a>>", "<<<", ">>>"]
DIVS = ["udiv", "umod", "sdiv", "smod", "/", "%"]
CMP = ["==", "<u", "<=u", "<s", "<=s"]
FLAG2 = ["FLAG_EQ_CMP", "FLAG_EQ_AND", "FLAG_SIGN_SUB", "FLAG_SIGN_ADD", "FLAG_ADD_CF", "FLAG_ADD_OF", "FLAG_SUB_CF", "FLAG_SUB_OF"]
FLAG3 = ["FLAG_ADDWC_CF", "FLAG_ADDWC_OF", "FLAG_SUBWC_CF", "FLAG_SUBWC_OF", "FLAG_EQ_ADDWC", "FLAG_EQ_SUBWC",
         "FLAG_SIGN_ADDWC", "FLAG_SIGN_SUBWC"]
CC = {"CC_U<=": 2, "CC_U>=": 1, "CC_S<": 2, "CC_S>": 3, "CC_S<=": 3, "CC_S>=": 2, "CC_U>": 2, "CC_U<": 1,
      "CC_NEG": 1, "CC_EQ": 1, "CC_NE": 1, "CC_POS": 1}


class Gen(object):
    def __init__(self, rng, widths=None, ids_per_width=2, allow_mem=True, allow_div=True, ptr=32, div_max_w=64):
        from miasm.expression import expression as m
        self.m = m
        self.rng = rng
        self.widths = widths or WIDTHS
        self.nid = ids_per_width
        self.allow_mem = allow_mem
        self.allow_div = allow_div
        self.ptr = ptr
        self.div_max_w = div_max_w

    def ident(self, w):
        return self.m.ExprId("%s%d" % ("abcd"[self.rng.randrange(self.nid)], w), w)

    def const(self, w):
        r = self.rng
        mask = (1 << w) - 1
        c = r.random()
        if c < 0.6:
            return self.m.ExprInt(r.choice([0, 1, 2, mask, mask >> 1, (mask >> 1) + 1, w & mask, (w - 1) & mask, 0x80 & mask,
                                            0xff & mask, 3 & mask]), w)
        return self.m.ExprInt(r.getrandbits(w), w)

    def edge_const(self, w, W):
        """constants of width W at the edges of the value range of a w-bit operand extended to W bits"""
        h = 1 << (w - 1)
        vals = [h - 1, h, h + 1, (1 << w) - 1, 1 << w, (1 << w) + 1, -h, -h - 1, -h + 1, -1, 0, 1, -(1 << w), 2 * h - 2]
        return self.m.ExprInt(self.rng.choice(vals) & ((1 << W) - 1), W)

    def leaf(self, w):
        return self.ident(w) if self.rng.random() < 0.6 else self.const(w)

    def expr(self, w, depth):
        m, r = self.m, self.rng
        if depth <= 0:
            return self.leaf(w)
        c = r.random()
        d = depth - 1
        if w == 1 and c < 0.45:
            k = r.random()
            aw = r.choice([x for x in self.widths if x > 1] or [8])
            if k < 0.35:
                return m.ExprOp(r.choice(CMP), self.expr(aw, d), self.expr(aw, d))
            if k < 0.6:
                return m.ExprOp(r.choice(FLAG2), self.expr(aw, d), self.expr(aw, d))
            if k < 0.7:
                return m.ExprOp(r.choice(FLAG3), self.expr(aw, d), self.expr(aw, d), self.expr(1, d))
            if k < 0.8:
                op = r.choice(sorted(CC))
                return m.ExprOp(op, *[self.expr(1, d) for _ in range(CC[op])])
            if k < 0.9:
                return m.ExprOp("parity", self.expr(aw, d))
            return m.ExprOp("FLAG_EQ", self.expr(aw, d))
        if c < 0.15:
            return self.leaf(w)
        if c < 0.40:
            n = 2 if r.random() < 0.7 else 3
            return m.ExprOp(r.choice(NARY), *[self.expr(w, d) for _ in range(n)])
        if c < 0.47:
            return m.ExprOp("-", self.expr(w, d))
        if c < 0.50:
            return self.expr(w, d) - self.expr(w, d)
        if c < 0.60:
            cnt = self.const(w) if r.random() < 0.7 else self.expr(w, d)
            return m.ExprOp(r.choice(SHIFT), self.expr(w, d), cnt)
        if c < 0.64 and self.allow_div and w <= self.div_max_w:
            return m.ExprOp(r.choice(DIVS), self.expr(w, d), self.expr(w, d))
        if c < 0.72:
            cw = r.choice([1, 1, w])
            return m.ExprCond(self.expr(cw, d), self.expr(w, d), self.expr(w, d))
        if c < 0.80:
            big = r.choice([x for x in self.widths + ODD if x > w] or [w + 8])
            lo = r.randrange(0, big - w + 1)
            return self.expr(big, d)[lo:lo + w]
        if c < 0.88 and w > 1:
            cut = r.randrange(1, w)
            parts = [self.expr(cut, d), self.expr(w - cut, d)]
            return m.ExprCompose(*parts)
        if c < 0.94 and w > 1:
            small = r.choice([x for x in [1, 3, 7, 8, 16, 32] if x < w] or [1])
            e = self.expr(small, d)
            return e.zeroExtend(w) if r.random() < 0.5 else e.signExtend(w)
        if c < 0.97 and w > 1:
            return m.ExprOp(r.choice(["cntleadzeros", "cnttrailzeros"]), self.expr(w, d))
        if self.allow_mem and w % 8 == 0:
            return m.ExprMem(self.expr(self.ptr, d), w)
        return self.leaf(w)

    # ---- rule-shaped forms ------------------------------------------------------
    def shaped(self):
        m, r = self.m, self.rng
        w = r.choice([8, 16, 32])
        W = r.choice([x for x in [16, 32, 64] if x > w])
        x, y = self.ident(w), self.ident(w)
        X = self.ident(W)
        cst = self.const(W) if r.random() < 0.5 else self.edge_const(w, W)
        cw = self.const(w)
        ext = (lambda e: e.zeroExtend(W)) if r.random() < 0.5 else (lambda e: e.signExtend(W))
        cmpop = r.choice(CMP)
        one, zero = m.ExprInt(1, 1), m.ExprInt(0, 1)
        forms = [
            lambda: m.ExprOp(cmpop, ext(x), cst),
            lambda: m.ExprOp(cmpop, cst, ext(x)),
            lambda: m.ExprOp(cmpop, ext(x), ext(y)),
            lambda: m.ExprOp(cmpop, x.zeroExtend(W), y.signExtend(W)),
            lambda: m.ExprOp("==", x.zeroExtend(W) & cst, cst),
            lambda: m.ExprOp("==", x & cw, cw),
            lambda: m.ExprCond(m.ExprOp(cmpop, x, y), self.const(W), self.const(W)),
            lambda: m.ExprCond(m.ExprOp("CC_S<", m.ExprOp("FLAG_SIGN_SUB", x, y), m.ExprOp("FLAG_SUB_OF", x, y)), X, cst),
            lambda: m.ExprCond(m.ExprOp("CC_U<=", m.ExprOp("FLAG_SUB_CF", x, y), m.ExprOp("FLAG_EQ_CMP", x, y)), X, cst),
            lambda: m.ExprCond(m.ExprOp("CC_EQ", m.ExprOp("FLAG_EQ_CMP", x, cw)), X, cst),
            lambda: m.ExprCond(m.ExprOp("CC_S>", m.ExprOp("FLAG_SIGN_SUB", x, y), m.ExprOp("FLAG_SUB_OF", x, y),
                                        m.ExprOp("FLAG_EQ_CMP", x, y)), X, cst),
            lambda: m.ExprCond(m.ExprOp("CC_U<", m.ExprOp("FLAG_SUB_CF", x, y)), one, zero),
            lambda: m.ExprCond(m.ExprOp("CC_NE", m.ExprOp("FLAG_EQ", x & y)), X, cst),
            lambda: m.ExprCond(m.ExprOp("CC_NEG", m.ExprOp("FLAG_SIGN_SUB", x, cw)), X, cst),
            lambda: m.ExprOp("FLAG_SUBWC_CF", x, y, m.ExprOp("FLAG_SUB_CF", self.ident(w), cw)),
            lambda: m.ExprOp("FLAG_SUBWC_OF", x, y, zero),
            lambda: m.ExprOp("FLAG_SIGN_SUBWC", x, y, zero),
            lambda: m.ExprOp("FLAG_SUB_CF", x, m.ExprInt(0, w)),
            lambda: m.ExprCompose(x[0:w // 2], x[w // 2:w]),
            lambda: m.ExprCompose(x, m.ExprInt(0, W - w))[0:w],
            lambda: ext(x)[0:r.randrange(1, W)],
            lambda: ext(x)[r.randrange(0, W - 1):W],
            lambda: ext(ext(x)[0:w]),
            lambda: x.zeroExtend(W).zeroExtend(2 * W), lambda: x.signExtend(W).signExtend(2 * W),
            lambda: m.ExprCompose(x, y) & m.ExprInt((1 << w) - 1, 2 * w),
            lambda: (x + cw) - x, lambda: x + (-x), lambda: (x * cw) + x, lambda: -(x + y), lambda: -(-x),
            lambda: (x ^ y) ^ y, lambda: (x & y) | x, lambda: x & m.ExprInt((1 << w) - 1, w),
            lambda: m.ExprOp("<<", m.ExprOp("<<", x, self.const(w)), self.const(w)),
            lambda: m.ExprOp(">>", m.ExprOp("<<", x, cw), cw),
            lambda: m.ExprOp("<<<", m.ExprOp(">>>", x, cw), cw),
            lambda: m.ExprCond(x, cw, cw), lambda: m.ExprCond(m.ExprCond(x, one, zero), X, cst),
            lambda: m.ExprCond(x - y, X, cst), lambda: m.ExprCond(x.msb(), X, cst),
            lambda: m.ExprCond(m.ExprOp("==", x, cw), one, zero), lambda: m.ExprCond(x, X, cst) + cst,
            lambda: m.ExprCond(x.zeroExtend(W), X, cst), lambda: -m.ExprCond(x, self.const(W), self.const(W)),
            lambda: m.ExprOp("smod", x.signExtend(W), y.signExtend(W)),
            lambda: m.ExprOp("==", x + cw, self.const(w)), lambda: m.ExprOp("==", -x, cw), lambda: m.ExprOp("==", x ^ cw, self.const(w)),
            lambda: m.ExprOp("<s", x.zeroExtend(W), m.ExprInt(0, W)), lambda: m.ExprOp("<u", cst, cst + m.ExprInt(1, W)),
            lambda: m.ExprMem(self.ident(self.ptr) + self.const(self.ptr), w)[0:8],
            lambda: m.ExprCompose(m.ExprMem(self.ident(self.ptr), 8), m.ExprMem(self.ident(self.ptr) + m.ExprInt(1, self.ptr), 8)),
            lambda: m.ExprOp("FLAG_EQ_CMP", cw, cw), lambda: m.ExprOp("FLAG_ADD_CF", x, m.ExprInt(0, w)),
        ]
        return r.choice(forms)()


def enumerate_small(widths=(1, 2, 3), leaves_per_width=None):
    """every expression with one operator over leaves {a, b, 0, 1, -1} at the given widths,
    plus every such operator applied to one nested operator argument (depth 2) for width <= 2"""
    from miasm.expression import expression as m
    out = []
    for w in widths:
        mask = (1 << w) - 1
        leaves = [m.ExprId("a%d" % w, w), m.ExprId("b%d" % w, w)] + [m.ExprInt(v, w) for v in sorted({0, 1, mask})]
        unary = [lambda x: m.ExprOp("-", x), lambda x: m.ExprOp("parity", x), lambda x: m.ExprOp("cntleadzeros", x),
                 lambda x: m.ExprOp("cnttrailzeros", x), lambda x: x.zeroExtend(w + 2), lambda x: x.signExtend(w + 2),
                 lambda x: m.ExprOp("FLAG_EQ", x), lambda x: x[0:1], lambda x: x[w - 1:w]]
        binary = [(lambda op: (lambda x, y: m.ExprOp(op, x, y)))(op) for op in NARY + SHIFT + DIVS + CMP + FLAG2]
        binary += [lambda x, y: x - y, lambda x, y: m.ExprCompose(x, y), lambda x, y: m.ExprCond(x, y, x),
                   lambda x, y: m.ExprCond(x, x, y)]
        d1 = []
        for f in unary:
            for x in leaves:
                d1.append(f(x))
        for f in binary:
            for x in leaves:
                for y in leaves:
                    d1.append(f(x, y))
        out += d1
        if w <= 2:
            same = [e for e in d1 if e.size == w]
            for f in unary:
                for x in same:
                    out.append(f(x))
            for f in binary[:len(NARY + SHIFT + DIVS + CMP)]:
                for x in same[::3]:
                    for y in leaves:
                        out.append(f(x, y))
                        out.append(f(y, x))
    # dedupe (expressions are interned)
    seen, res = set(), []
    for e in out:
        if e not in seen:
            seen.add(e)
            res.append(e)
    return res


def enumerate_cc(width=2):
    """every condition-code operator applied to every tuple of flag expressions over the same operand pair
    (x, y), (x, 0) and constant flags: the forms produced by compare/test + conditional jump idioms"""
    from miasm.expression import expression as m
    x, y = m.ExprId("a%d" % width, width), m.ExprId("b%d" % width, width)
    zero = m.ExprInt(0, width)
    pool = []
    for (p, q) in ((x, y), (x, zero), (x, x)):
        for op in FLAG2:
            pool.append(m.ExprOp(op, p, q))
    pool += [m.ExprOp("FLAG_EQ", x), m.ExprOp("FLAG_EQ", x & y), m.ExprOp("FLAG_SIGN_ADD", x, y),
             m.ExprInt(0, 1), m.ExprInt(1, 1)]
    out = []
    for op, n in sorted(CC.items()):
        for args in itertools.product(pool, repeat=n):
            out.append(m.ExprOp(op, *args))
    return out


def enumerate_ext_cmp():
    """comparisons of a sign / zero extended operand with every constant around the operand's and the result's boundaries, both
    operand orders (the simplifier narrows such comparisons to the operand's width)"""
    import miasm.expression.expression as m
    out = []
    for wa, w in ((3, 8), (4, 8), (8, 16), (8, 32), (5, 24), (1, 8)):
        a = m.ExprId("a%d" % wa, wa)
        half = 1 << (wa - 1)
        csts = sorted(set(c & ((1 << w) - 1) for c in (
            0, 1, half - 1, half, half + 1, (1 << wa) - 1, 1 << wa, (1 << wa) + 1, (1 << w) - half, (1 << w) - half - 1, (1 << w) - half + 1,
            (1 << w) - 1, (1 << w) - 2, 1 << (w - 1), (1 << (w - 1)) - 1, (1 << (w - 1)) + 1)))
        for ext in ("signExt", "zeroExt"):
            x = m.ExprOp("%s_%d" % (ext, w), a)
            for op in ("<s", "<=s", "<u", "<=u", "=="):
                for c in csts:
                    k = m.ExprInt(c, w)
                    out.append(m.ExprOp(op, x, k))
                    out.append(m.ExprOp(op, k, x))
    return out
