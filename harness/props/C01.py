from .. import simpcheck


def run(ctx):
    return simpcheck.run(ctx, "C01")
