from .. import jitprops


def run(ctx):
    return jitprops.c21(ctx)
