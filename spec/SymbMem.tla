------------------------------- MODULE SymbMem -------------------------------
(* The symbolic engine's memory (miasm/ir/symbexec.py: SymbolMngr / MemSparse /   *)
(* MemArray, property C13) as a little-endian byte store.                          *)
(*                                                                                *)
(* A memory cell is addressed by (base, offset): the base is the symbolic part of  *)
(* the pointer ("INT" for absolute addresses), the offset its integer part, taken  *)
(* modulo M = 2^addrsize.  Every cell holds a BYTE TERM:                           *)
(*     <<"v", value name, k>>   byte k of an opaque written value                  *)
(*     <<"c", n>>               the constant byte n                                *)
(*     <<"m", base, off>>       the ORIGINAL content of cell (base, off)           *)
(* and an untouched cell (b, o) holds <<"m", b, o>>: its own original content.     *)
(* So "writing the original value back" and "deleting" both restore the default.   *)
EXTENDS Integers, Sequences, FiniteSets, TLC

CONSTANTS Bases,      \* base names, e.g. {"INT", "B", "C"}
          Offs,       \* offsets exercised (a set of naturals below M, near 0 and near M)
          M,          \* 2^addrsize
          WVals,      \* values that can be written: [t |-> "v", n |-> name, s |-> bytes] (opaque value),
                      \* [t |-> "c", bytes |-> <<b0, ..>>] (constant), [t |-> "m", b, o, s] (original content of a region)
          Sizes       \* access sizes in bytes

VARIABLES cell,       \* [Bases \X Addr -> byte term]   (Addr = the cells the pools can touch)
          touched,    \* bases that ever received a write and were not lost by an export/import
          ret
vars == <<cell, touched, ret>>

Wrap(o) == o % M
MaxSize == CHOOSE s \in Sizes : \A t \in Sizes : t <= s
Addr == {Wrap(o + i) : o \in Offs, i \in 0..(MaxSize - 1)}
Orig(b, o) == <<"m", b, o>>
Present(b, o) == cell[<<b, o>>] # Orig(b, o)

Init == /\ cell = [p \in Bases \X Addr |-> Orig(p[1], p[2])]
        /\ touched = {}
        /\ ret = "none"

(* ---- values that can be written, as sequences of byte terms (little-endian) ---- *)
ValBytes(v) ==
  CASE v.t = "v" -> [k \in 1..v.s |-> <<"v", v.n, k - 1>>]
    [] v.t = "c" -> [k \in 1..Len(v.bytes) |-> <<"c", v.bytes[k]>>]
    [] v.t = "m" -> [k \in 1..v.s |-> Orig(v.b, Wrap(v.o + k - 1))]        \* the original content of another (or the same) region
(* ---- byte terms rendered as text (results are strings) ---- *)
TermStr(t) == IF t[1] = "v" THEN "v:" \o t[2] \o ":" \o ToString(t[3])
              ELSE IF t[1] = "c" THEN "c:" \o ToString(t[2])
              ELSE "m:" \o t[2] \o ":" \o ToString(t[3])
RECURSIVE Join(_, _)
Join(q, i) == IF i > Len(q) THEN "" ELSE (IF i > 1 THEN "|" ELSE "") \o TermStr(q[i]) \o Join(q, i + 1)

(* ---- actions ---- *)
Write(b, o, v) ==
  LET bs == ValBytes(v) IN
  /\ cell' = [p \in DOMAIN cell |->
                IF p[1] = b /\ \E k \in 1..Len(bs) : p[2] = Wrap(o + k - 1)
                THEN bs[CHOOSE k \in 1..Len(bs) : p[2] = Wrap(o + k - 1)]
                ELSE cell[p]]
  /\ touched' = touched \cup {b}
  /\ ret' = "ok"

Read(b, o, n) ==
  /\ ret' = Join([k \in 1..n |-> cell[<<b, Wrap(o + k - 1)>>]], 1)
  /\ UNCHANGED <<cell, touched>>

Region(o, n) == {Wrap(o + k) : k \in 0..(n - 1)}
(* del symbols[@n[b+o]] : only a wholly stored region can be deleted *)
Delete(b, o, n) ==
  IF \A a \in Region(o, n) : Present(b, a)
  THEN /\ cell' = [p \in DOMAIN cell |-> IF p[1] = b /\ p[2] \in Region(o, n) THEN Orig(p[1], p[2]) ELSE cell[p]]
       /\ ret' = "ok" /\ UNCHANGED touched
  ELSE ret' = "EXC:KeyError" /\ UNCHANGED <<cell, touched>>
(* delete_partial: stored bytes of the region are dropped, the others skipped *)
DeletePartial(b, o, n) ==
  IF b \in touched
  THEN /\ cell' = [p \in DOMAIN cell |-> IF p[1] = b /\ p[2] \in Region(o, n) THEN Orig(p[1], p[2]) ELSE cell[p]]
       /\ ret' = "ok" /\ UNCHANGED touched
  ELSE ret' = "EXC:KeyError" /\ UNCHANGED <<cell, touched>>
Contains(b, o, n) ==
  /\ ret' = (IF \A a \in Region(o, n) : Present(b, a) THEN "True" ELSE "False")
  /\ UNCHANGED <<cell, touched>>
(* get_state -> fresh engine -> set_state: every read is preserved *)
ExportImport ==
  /\ cell' = cell
  /\ touched' = {b \in Bases : \E a \in Addr : Present(b, a)}
  /\ ret' = "ok"

Do(o) == CASE o.op = "Write" -> Write(o.b, o.o, o.v)
           [] o.op = "Read" -> Read(o.b, o.o, o.n)
           [] o.op = "Delete" -> Delete(o.b, o.o, o.n)
           [] o.op = "DeletePartial" -> DeletePartial(o.b, o.o, o.n)
           [] o.op = "Contains" -> Contains(o.b, o.o, o.n)
           [] o.op = "ExportImport" -> ExportImport
Ops == [op : {"Write"}, b : Bases, o : Offs, v : WVals]
       \cup [op : {"Read", "Delete", "DeletePartial", "Contains"}, b : Bases, o : Offs, n : Sizes]
       \cup [op : {"ExportImport"}]
Next == \E o \in Ops : Do(o)
Spec == Init /\ [][Next]_vars

(* ---- properties ---- *)
TypeOK == \A p \in DOMAIN cell : cell[p][1] \in {"v", "c", "m"}
(* a write changes exactly the bytes of its region, under its base *)
WriteLocal == [][\A p \in DOMAIN cell : cell'[p] # cell[p] => p[1] \in touched' ]_vars
(* observers are pure *)
ReadPure == [][(ret' \notin {"ok", "EXC:KeyError"}) => cell' = cell]_vars
(* the export / import round-trip preserves every cell, hence every read *)
ExportPreserves == [][touched' # touched /\ cell' # cell => \E b \in Bases : b \in touched' \ touched]_vars

(* ---- binding ---- *)
PD == Bases \X Addr
CellKey(b, a) == b \o ":" \o ToString(a)
KeySet == {CellKey(p[1], p[2]) : p \in PD}
Proj == [cells |-> [k \in KeySet |-> TermStr(cell[CHOOSE p \in PD : CellKey(p[1], p[2]) = k])]]
AbsView == <<cell, touched>>
Matches(j) == \A p \in PD : j.cells[CellKey(p[1], p[2])] = TermStr(cell[p])
=============================================================================
