#!/bin/sh
# usage: mkworktree.sh <name>   -> scratch git worktree of /repo HEAD at /tmp/wt_<name> (with the prebuilt .so copied)
set -e
d=/tmp/wt_$1
git -C /repo worktree remove --force $d 2>/dev/null || true
rm -rf $d
git -C /repo worktree add -q --detach $d HEAD
(cd /repo && find miasm -name "*.so" | while read f; do cp "$f" "$d/$f"; done)
mkdir -p /tmp/seed_$1
echo $d
