"""CLI: ./check <ID> [--tier quick|thorough] [--replay FILE] [--seed N]"""
import argparse
import importlib
import json
import os
import sys
import time
import traceback

HERE = os.path.dirname(os.path.dirname(os.path.abspath(__file__)))
os.chdir(HERE)
sys.path.insert(0, HERE)
deps = os.path.join(HERE, ".deps")
if os.path.isdir(deps):
    sys.path.insert(1, deps)

from harness import core  # noqa: E402


def main():
    ap = argparse.ArgumentParser()
    ap.add_argument("pid")
    ap.add_argument("--tier", default=os.environ.get("VERIF_TIER", "quick"),
                    choices=["quick", "thorough"])
    ap.add_argument("--seed", type=int, default=int(os.environ.get("VERIF_SEED", "0") or 0))
    ap.add_argument("--replay")
    ap.add_argument("--keep", action="store_true", help="keep scratch directory")
    args = ap.parse_args()
    # the implementation under test is /repo's working tree
    sys.path.insert(0, core.REPO)
    mod = importlib.import_module("harness.props." + args.pid)
    rec = None
    if args.replay:
        # a replay file records the violating item with the tier and seed of the run that found it; runs are a
        # deterministic function of (tree, tier, seed): the replay shows the recorded item and re-runs that configuration,
        # which reports the same violation again as long as the tree still has it
        rec = json.load(open(args.replay))
        args.tier = rec.get("tier", args.tier)
        args.seed = int(rec.get("seed", args.seed))
        print("REPLAY property=%s kind=%s tier=%s seed=%d" % (args.pid, rec.get("kind"), args.tier, args.seed))
        print("  recorded: %s" % json.dumps(rec.get("detail"), default=str)[:6000])
        os.environ.setdefault("VERIF_OUT", os.path.join(os.environ.get("TMPDIR", "/tmp"), "verif_replay_out"))
        importlib.reload(core)
    ctx = core.Ctx(args.pid, args.tier, args.seed)
    rc = 0
    try:
        if args.replay and hasattr(mod, "replay"):
            rule = mod.replay(ctx, rec)
        else:
            rule = mod.run(ctx)
        level = getattr(mod, "LEVEL", "model_checking")
        core.write_evidence(ctx, level=level, rule=rule or "")
        if ctx.violations:
            rc = 1
    except core.MachineryError as e:
        print("MACHINERY-ERROR property=%s %s" % (args.pid, e))
        rc = 2
        if ctx.violations:       # a violation had already been established before the failure
            core.write_evidence(ctx, level=getattr(mod, "LEVEL", "model_checking"), rule="(run aborted after the violation)")
            rc = 1
    except Exception:
        traceback.print_exc()
        print("MACHINERY-ERROR property=%s unexpected exception" % args.pid)
        rc = 2
        if ctx.violations:       # a violation had already been established before the failure
            core.write_evidence(ctx, level=getattr(mod, "LEVEL", "model_checking"), rule="(run aborted after the violation)")
            rc = 1
    finally:
        if not args.keep:
            ctx.cleanup()
        else:
            print("scratch kept:", ctx.scratch)
    print("%s tier=%s seed=%d %s states=%d transitions=%d impl_traces=%d violations=%d known=%d wall=%.1fs" % (
        args.pid, args.tier, args.seed, "OK" if rc == 0 else ("VIOLATION" if rc == 1 else "ERROR"),
        ctx.states, ctx.transitions, ctx.traces, len(ctx.violations), len(ctx.known_hits),
        time.time() - ctx.t0))
    sys.exit(rc)


if __name__ == "__main__":
    main()
