"""Generic binding of a state-machine specification to the implementation.

A specification module <M>.tla bound by this file defines
   Init, Ops, Do(o), Proj, AbsView, Matches(j), vars   and its property invariants.
An adapter (python) defines
   new(cfg) -> obj ; apply(obj, o) -> ret (JSON) ; project(obj) -> JSON shaped like Proj
   (python sets where the spec has sets).

Direction spec -> code (gen_replay): TLC enumerates every reachable abstract state of the
bounded instance (VIEW = AbsView) and every operation from it, printing one EDGE line per
transition with a witness history; each edge is replayed on a fresh real object and the
return value and the full projected state are compared with TLC's.

Direction code -> spec (trace_validate): histories recorded from the real object (larger
pools, longer runs) are validated by TLC as behaviours of the same actions, with the
projected state compared after every event.
"""
import json
import multiprocessing
import os
import sys
import time

from . import core
from .core import canon


def match(exp, obs):
    """exp: JSON from TLC; obs: python value from the adapter (may contain sets)."""
    if isinstance(obs, (set, frozenset)):
        if not isinstance(exp, (list, tuple)):
            return exp in ({}, []) and not obs
        return set(canon(x) for x in exp) == set(canon(x) for x in obs) and len(exp) == len(obs)
    if isinstance(obs, dict):
        if not obs:
            return exp in ({}, [], ())
        if isinstance(exp, list):
            # TLC prints a function with domain 1..n as an array
            exp = {str(i + 1): v for i, v in enumerate(exp)}
        if not isinstance(exp, dict) or set(map(str, exp)) != set(map(str, obs)):
            return False
        e2 = {str(k): v for k, v in exp.items()}
        return all(match(e2[str(k)], v) for k, v in obs.items())
    if isinstance(obs, (list, tuple)):
        if isinstance(exp, dict) and not exp and not obs:
            return True
        if not isinstance(exp, (list, tuple)) or len(exp) != len(obs):
            return False
        return all(match(a, b) for a, b in zip(exp, obs))
    if isinstance(obs, bool) or isinstance(exp, bool):
        return exp is obs
    return exp == obs


def jsonable(x):
    if isinstance(x, (set, frozenset)):
        return sorted((jsonable(v) for v in x), key=repr)
    if isinstance(x, dict):
        return {str(k): jsonable(v) for k, v in x.items()}
    if isinstance(x, (list, tuple)):
        return [jsonable(v) for v in x]
    return x


GEN_TMPL = """---- MODULE %(name)s ----
EXTENDS %(mod)s, Json
VARIABLE hist
GInit == Init /\\ hist = <<>>
GOps == %(gops)s
IsSetup(o) == o.op \\in %(setup)s
NSetup(h) == Cardinality({i \\in 1..Len(h) : IsSetup(h[i])})
\\* setup operations only as a prefix of the history
\\* histories are cut in the action itself, so that no successor of a boundary state is generated only to be discarded
GNext == \\E o \\in GOps : /\\ (IsSetup(o) => NSetup(hist) = Len(hist))
                        /\\ (IsSetup(o) \\/ Len(hist) - NSetup(hist) < %(depth)d)
                        /\\ Do(o) /\\ hist' = Append(hist, o)
Emit == PrintT("EDGE " \\o ToJson([hist |-> hist', pre |-> Proj, ret |-> ret', st |-> Proj']))
GView == AbsView
Bound == Len(hist) - NSetup(hist) <= %(depth)d /\\ NSetup(hist) <= %(maxsetup)d
%(extra)s
====
"""

TRACE_TMPL = """---- MODULE %(name)s ----
EXTENDS %(mod)s, Json, IOUtils
VARIABLES tid, l
Traces == JsonDeserialize(IOEnv.TRACE_FILE)
TInit == Init /\\ tid \\in 1..Len(Traces) /\\ l = 1
TStep(e) == %(tdo)s /\\ ret' = e.ret /\\ Matches(e.st)'
EndsHere == l <= Len(Traces[tid]) /\\ \\E e \\in {Traces[tid][l]} : %(endsat)s
TNext == /\\ l <= Len(Traces[tid]) /\\ l' = l + 1 /\\ tid' = tid /\\ ~EndsHere
         /\\ \\E e \\in {Traces[tid][l]} : TStep(e)
Done == l = Len(Traces[tid]) + 1 \\/ EndsHere
Stuck == ~Done /\\ ~ENABLED TNext
NoStuck == ~Stuck \\/ PrintT("REJECT " \\o ToString(tid) \\o " " \\o ToString(l))
Accept == ~Done \\/ PrintT("ACCEPT " \\o ToString(tid))
%(extra)s
====
"""


def cfg_text(init, nxt, constants, invariants=(), properties=(), view=None,
             constraints=(), action_constraints=(), extra=""):
    lines = ["INIT " + init, "NEXT " + nxt, "CHECK_DEADLOCK FALSE"]
    if view:
        lines.append("VIEW " + view)
    for c in constraints:
        lines.append("CONSTRAINT " + c)
    for c in action_constraints:
        lines.append("ACTION_CONSTRAINT " + c)
    for i in invariants:
        lines.append("INVARIANT " + i)
    for p in properties:
        lines.append("PROPERTY " + p)
    if constants:
        lines.append("CONSTANTS")
        for k, v in constants.items():
            if needs_def(v):
                lines.append("  %s <- C_%s" % (k, k))
            else:
                lines.append("  %s = %s" % (k, v))
    return "\n".join(lines) + "\n" + extra


def needs_def(v):
    """cfg files only take numbers, strings, model values and sets of them."""
    return any(t in v for t in ("<<", "[", "|->", "..", "\\"))


def const_defs(constants):
    return "\n".join("C_%s == %s" % (k, v) for k, v in constants.items() if needs_def(v))


# ---------------------------------------------------------------------------
# replay workers (module-level state for fork-based multiprocessing)

_ADAPTER = None
_ACFG = None
_SKIP_SAMPLES = []


def _replay_chunk(lines):
    """Returns (n_edges, list of failures, counters, nskipped, samples)."""
    ad, acfg = _ADAPTER, _ACFG
    fails = []
    ops = {}
    groups = {}
    order = []
    for s in lines:
        e = json.loads(s)
        hist = e["hist"]
        key = json.dumps(hist, sort_keys=True)   # one witness history per abstract state
        if key not in groups:
            groups[key] = (hist, e["pre"], [])
            order.append(key)
        groups[key][2].append((e["ret"], e["st"]))
    skipped = 0
    distinct = set()
    for key in order:
        hist, pre, allowed = groups[key]
        op = hist[-1]
        try:
            obj = ad.new(acfg)
            for o in hist[:-1]:
                ad.apply(obj, o)
            before = ad.project(obj)
        except Exception as ex:    # the prefix is reported by its own (shorter) edge
            skipped += 1
            if len(_SKIP_SAMPLES) < 3:
                _SKIP_SAMPLES.append({"history": hist, "prefix_raised": type(ex).__name__ + ":" + str(ex)[:200]})
            continue
        if not match(pre, before):
            # an earlier step took another allowed nondeterministic branch, or an earlier
            # edge already reports the mismatch
            skipped += 1
            if len(_SKIP_SAMPLES) < 3:
                _SKIP_SAMPLES.append({"history": hist, "expected_state_before_the_last_step": pre, "observed": jsonable(before)})
            continue
        try:
            ret = ad.apply(obj, op)
        except Exception as ex:
            ret = "EXC:" + type(ex).__name__ + ":" + str(ex)[:200]
        try:
            st = ad.project(obj)
        except Exception as ex:
            st = {"project-raised": type(ex).__name__ + ":" + str(ex)[:200]}
        ops[op["op"]] = ops.get(op["op"], 0) + 1
        distinct.add(key)
        ok = any(match(r, ret) and match(s_, st) for r, s_ in allowed)
        if not ok:
            fails.append({"hist": hist, "pre": pre, "allowed": allowed[:4],
                          "observed": {"ret": jsonable(ret), "st": jsonable(st)}})
    if skipped * 2 > len(order) and not fails:
        # carried back to the parent as pseudo-failures only when the whole run turns out to be mostly skipped
        ops["__skip_samples"] = list(_SKIP_SAMPLES)
    return len(lines), fails, ops, skipped, len(distinct)


def gen_replay(ctx, mod, constants, depth, adapter, acfg=None, invariants=(), properties=(),
               classify=None, label="gen", extra_defs="", constraints=(), simulate=None,
               sim_depth=None, timeout=3000, action_constraints=(), gops="Ops", setup=(),
               maxsetup=0):
    """Run TLC (exhaustive BFS, or -simulate) on the generation wrapper and replay every
    EDGE on the implementation.  Returns dict of counters."""
    global _ADAPTER, _ACFG
    name = "%s_%s" % (mod, label)
    text = GEN_TMPL % dict(name=name, mod=mod, depth=depth, gops=gops, maxsetup=maxsetup,
                           setup=core.tla_set(core.tla_str(x) for x in setup),
                           extra=extra_defs + "\n" + const_defs(constants))
    cfg = cfg_text("GInit", "GNext", constants, invariants=invariants, properties=properties,
                   view=None if simulate else "GView",
                   constraints=("Bound",) + tuple(constraints),
                   action_constraints=("Emit",) + tuple(action_constraints))
    edges = []

    def on_print(s):
        if s.startswith("EDGE "):
            edges.append(s[5:])

    res = core.run_tlc(ctx, name, text, cfg, workers=1, on_print=on_print, simulate=simulate,
                       depth=sim_depth, timeout=timeout)
    if res.error_kind in ("invariant", "property"):
        ctx.violation("spec-" + res.error_kind,
                      {"module": mod, "name": res.error_name, "constants": constants,
                       "tlc": res.errtext[:3000]})
    ctx.add_tlc(res)
    # group edges so that all alternatives for one (pre, op) land in one chunk
    edges.sort(key=lambda s: s[:s.find('"ret"')] if '"ret"' in s else s)
    _ADAPTER, _ACFG = adapter, acfg
    nproc = min(core.NCPU, max(1, len(edges) // 2000))
    chunks = []
    if edges:
        # cut only at group boundaries
        size = max(1, len(edges) // (nproc * 4))
        cur = []
        lastkey = None
        for s in edges:
            k = s[:s.find('"ret"')]
            if len(cur) >= size and k != lastkey:
                chunks.append(cur)
                cur = []
            cur.append(s)
            lastkey = k
        if cur:
            chunks.append(cur)
    total = {"edges": 0, "fails": 0, "skipped": 0, "ops": {}, "distinct": 0}
    skip_samples = []
    if nproc > 1:
        with multiprocessing.get_context("fork").Pool(nproc) as pool:
            results = pool.map(_replay_chunk, chunks)
    else:
        results = [_replay_chunk(c) for c in chunks]
    for n, fails, ops, skipped, nd in results:
        total["edges"] += n
        total["skipped"] += skipped
        total["distinct"] += nd
        for k, v in ops.items():
            if k == "__skip_samples":
                skip_samples.extend(v)
                continue
            total["ops"][k] = total["ops"].get(k, 0) + v
        for f in fails:
            handled = classify(ctx, f) if classify else False
            if not handled:
                total["fails"] += 1
                ctx.violation("replay-mismatch", dict(f, module=mod, constants=constants,
                                                      acfg=repr(acfg)[:2000]))
    if total["edges"] and total["skipped"] * 2 > total["edges"]:
        # the replayer could not even reach most pre-states: the binding itself is broken (or an earlier, shorter edge
        # already reported why); never count such a run as coverage
        if not total["fails"]:
            # no checked step differs, yet the real object does not follow the specification along the prefixes (the
            # divergence sits in steps that are not replayed on their own, e.g. set-up operations): a conformance failure
            ctx.violation("prefix-diverges", {"module": mod, "skipped": total["skipped"], "edges": total["edges"],
                                              "samples": skip_samples[:3], "constants": constants})
    ctx.traces += total["edges"] - total["skipped"]
    ctx.evaluations += total["edges"]
    for i in range(total["distinct"]):
        ctx.distinct.add((name, json.dumps(constants, sort_keys=True), i))
    if edges:
        ctx.sample({"kind": "spec->code edge", "module": mod, "edge": json.loads(edges[len(edges) // 2])})
    ctx.notes.setdefault("runs", []).append(
        {"run": name, "constants": constants, "depth": depth, "tlc_states": res.distinct,
         "tlc_transitions": res.generated, "edges_replayed": total["edges"] - total["skipped"],
         "edges_skipped_nondeterminism": total["skipped"], "ops": total["ops"],
         "mode": "simulate" if simulate else "exhaustive", "wall_s": round(res.wall, 1)})
    return total


def trace_validate(ctx, mod, constants, traces, label="trace", extra_defs="", classify=None,
                   timeout=1500, workers=None, tdo="Do(e.o)", endsat="FALSE"):
    """traces: list of lists of events {o, ret, st} (JSON).  TLC validates the batch; returns
    the list of (trace index, position) rejections."""
    name = "%s_%s" % (mod, label)
    # an adapter projection that raised (its own cross-checks failed) is reported directly
    cleaned = []
    for tr in traces:
        cut = None
        for i, e in enumerate(tr):
            if isinstance(e["st"], dict) and "projection-raised" in e["st"]:
                cut = i
                break
        if cut is not None:
            ctx.violation("projection-check-failed", {"module": mod, "event": jsonable(tr[cut]),
                                                      "ops_so_far": jsonable([e["o"] for e in tr[:cut + 1]])})
            tr = tr[:cut]
        cleaned.append(tr)
    traces = cleaned
    d = ctx.sub("tlc_" + name)
    tf = os.path.join(d, "traces.json")
    with open(tf, "w") as f:
        json.dump(jsonable(traces), f)
    text = TRACE_TMPL % dict(name=name, mod=mod, extra=extra_defs + "\n" + const_defs(constants),
                             tdo=tdo, endsat=endsat)
    cfg = cfg_text("TInit", "TNext", constants, invariants=("NoStuck", "Accept"))
    rejects = {}
    accepted = set()

    def on_print(s):
        if s.startswith("REJECT "):
            _, t, l = s.split()
            rejects[int(t)] = max(rejects.get(int(t), 0), int(l))
        elif s.startswith("ACCEPT "):
            accepted.add(int(s.split()[1]))

    res = core.run_tlc(ctx, name, text, cfg, workers=workers or core.NCPU, on_print=on_print,
                       env_extra={"TRACE_FILE": tf}, timeout=timeout)
    ctx.add_tlc(res)
    bad = []
    for i in range(1, len(traces) + 1):
        if i not in accepted:
            pos = rejects.get(i, 0)
            tr = traces[i - 1]
            detail = {"module": mod, "trace_index": i, "rejected_at": pos,
                      "rejected_event": jsonable(tr[pos - 1]) if 0 < pos <= len(tr) else None,
                      "previous_events": jsonable(tr[max(0, pos - 4):max(0, pos - 1)]),
                      "ops_so_far": jsonable([e["o"] for e in tr[:pos]]),
                      "constants": constants}
            handled = classify(ctx, detail) if classify else False
            if not handled:
                bad.append((i, pos))
                ctx.violation("trace-rejected", detail)
    ctx.traces += len(traces)
    ctx.evaluations += sum(len(t) for t in traces)
    if traces:
        ctx.sample({"kind": "code->spec trace (first events)", "module": mod,
                    "events": jsonable(traces[0][:3])})
    ctx.notes.setdefault("runs", []).append(
        {"run": name, "constants": constants, "traces": len(traces),
         "events": sum(len(t) for t in traces), "accepted": len(accepted),
         "tlc_states": res.distinct, "wall_s": round(res.wall, 1)})
    return bad


def record_traces(adapter, acfg, gen_op, n_traces, length, rng):
    """Drive the real object through random histories; log (o, ret, st) per call."""
    traces = []
    for _ in range(n_traces):
        obj = adapter.new(acfg)
        tr = []
        for _ in range(length):
            o = gen_op(rng, obj, acfg)
            if o is None:
                break
            try:
                ret = adapter.apply(obj, o)
            except Exception as ex:
                ret = "EXC:" + type(ex).__name__
            try:
                st = adapter.project(obj)
            except core.MachineryError:
                raise
            except Exception as ex:     # a projection assertion is a finding of its own: TLC rejects the event
                st = {"projection-raised": type(ex).__name__ + ":" + str(ex)[:300]}
                tr.append({"o": o, "ret": ret, "st": st})
                break
            tr.append({"o": o, "ret": ret, "st": st})
            if o.get("op") == "Destroy":
                break
        traces.append(tr)
    return traces


def selftest_trace_binding(ctx, mod, constants, traces, corrupt, tdo="Do(e.o)", endsat="FALSE"):
    """Anti-vacuity: corrupt one recorded field; TLC must reject exactly that trace."""
    import copy
    t2 = copy.deepcopy(jsonable(traces[:3]))
    where = corrupt(t2)
    sub = core.Ctx(ctx.pid, ctx.tier, ctx.seed)
    sub.violation = lambda kind, detail: sub.violations.append({"kind": kind, "detail": detail})
    try:
        bad = trace_validate(sub, mod, constants, t2, label="selftest", tdo=tdo, endsat=endsat)
    finally:
        sub.cleanup()
    if not bad:
        raise core.MachineryError("binding self-test: corrupted trace %r was accepted" % (where,))
    return bad
