from .. import jitprops


def run(ctx):
    return jitprops.c49(ctx)
