------------------------------ MODULE BinStream ------------------------------
(* miasm.core.bin_stream (property C25): a read-only window on a byte source.      *)
(* src is the current content of the source (it may change between instructions:   *)
(* emulator memory, a patched buffer); base is the address of its first byte.      *)
(* Reads return exactly the current bytes / bits of the source (most significant   *)
(* bit first; integers in the requested byte order); a read that leaves the source *)
(* raises IOError.  In "atomic mode" (while one instruction is decoded) reads may  *)
(* be cached: the source does not change inside an atomic section, so cached and   *)
(* uncached reads coincide.  ck is a ghost: the key of the last successful atomic  *)
(* byte read, kept across sections so that histories "read, leave, patch, enter,   *)
(* read the same key" are distinct abstract states and are all explored.           *)
EXTENDS Integers, Sequences, FiniteSets, TLC

CONSTANTS Alphabet,    \* byte values
          MaxLen,      \* maximal source length
          Base,        \* base address
          BitLens      \* bit-field lengths exercised

VARIABLES src, atomic, ck, ret
vars == <<src, atomic, ck, ret>>

Contents == UNION {[1..n -> Alphabet] : n \in 0..MaxLen}
Init == src = <<>> /\ atomic = FALSE /\ ck = <<>> /\ ret = "none"

InRange(a, l) == a - Base >= 0 /\ a + l - Base <= Len(src)
Bytes(a, l) == [i \in 1..l |-> src[a - Base + i]]
RECURSIVE JoinN(_, _)
JoinN(q, i) == IF i > Len(q) THEN "" ELSE (IF i > 1 THEN "," ELSE "") \o ToString(q[i]) \o JoinN(q, i + 1)
Rev(q) == [i \in 1..Len(q) |-> q[Len(q) + 1 - i]]

Load(q) == src' = q /\ ret' = "ok" /\ UNCHANGED <<atomic, ck>>

GetBytes(a, l) ==
  IF InRange(a, l)
  THEN /\ ret' = "b:" \o JoinN(Bytes(a, l), 1)
       /\ ck' = IF atomic THEN <<a, l>> ELSE ck
       /\ UNCHANGED <<src, atomic>>
  ELSE ret' = "EXC:IOError" /\ UNCHANGED <<src, atomic, ck>>

(* bit k (0 = first) of the stream: most significant bit of byte k \div 8 first *)
P2 == <<1, 2, 4, 8, 16, 32, 64, 128>>
BitAt(k) == (src[(k \div 8) - Base + 1] \div P2[8 - (k % 8)]) % 2
RECURSIVE BitsVal(_, _, _)
BitsVal(s, n, acc) == IF n = 0 THEN acc ELSE BitsVal(s + 1, n - 1, 2 * acc + BitAt(s))
GetBits(s, n) ==
  IF n = 0 THEN ret' = "i:0" /\ UNCHANGED <<src, atomic, ck>>
  ELSE IF InRange(s \div 8, ((s + n + 7) \div 8) - (s \div 8))
  THEN ret' = "i:" \o ToString(BitsVal(s, n, 0)) /\ UNCHANGED <<src, atomic, ck>>
  ELSE ret' = "EXC:IOError" /\ UNCHANGED <<src, atomic, ck>>

(* integer read: the result is given as its bytes, most significant first *)
GetU(w, a, e) ==
  IF InRange(a, w \div 8)
  THEN ret' = "u:" \o JoinN(IF e = "le" THEN Rev(Bytes(a, w \div 8)) ELSE Bytes(a, w \div 8), 1) /\ UNCHANGED <<src, atomic, ck>>
  ELSE ret' = "EXC:IOError" /\ UNCHANGED <<src, atomic, ck>>

Enter == ~atomic /\ atomic' = TRUE /\ ret' = "ok" /\ UNCHANGED <<src, ck>>
Leave == atomic /\ atomic' = FALSE /\ ret' = "ok" /\ UNCHANGED <<src, ck>>
(* the source is patched between two instructions *)
Mutate(i, v) == ~atomic /\ i \in 1..Len(src) /\ src' = [src EXCEPT ![i] = v] /\ ret' = "ok" /\ UNCHANGED <<atomic, ck>>

Do(o) == CASE o.op = "Load" -> Load(o.q)
           [] o.op = "GetBytes" -> GetBytes(o.a, o.l)
           [] o.op = "GetBits" -> GetBits(o.s, o.n)
           [] o.op = "GetU" -> GetU(o.w, o.a, o.e)
           [] o.op = "Enter" -> Enter
           [] o.op = "Leave" -> Leave
           [] o.op = "Mutate" -> Mutate(o.i, o.v)
Addrs == (Base - 1)..(Base + MaxLen + 1)
Ops == [op : {"Load"}, q : Contents]
       \cup [op : {"GetBytes"}, a : Addrs, l : 1..3]
       \cup [op : {"GetBits"}, s : (8 * Base - 2)..(8 * (Base + MaxLen) + 2), n : BitLens]
       \cup [op : {"GetU"}, w : {8, 16, 32}, a : Addrs, e : {"le", "be"}]
       \cup [op : {"Enter", "Leave"}]
       \cup [op : {"Mutate"}, i : 1..MaxLen, v : Alphabet]
Next == \E o \in Ops : Do(o)
Spec == Init /\ [][Next]_vars

ReadsPure == [][(ret' # "ok") => src' = src]_vars
TypeOK == src \in Contents /\ atomic \in BOOLEAN

Proj == [len |-> Len(src), all |-> IF Len(src) = 0 THEN "b:" ELSE "b:" \o JoinN(src, 1)]
AbsView == <<src, atomic, ck>>
Matches(j) == j.len = Len(src) /\ j.all = (IF Len(src) = 0 THEN "b:" ELSE "b:" \o JoinN(src, 1))
=============================================================================
