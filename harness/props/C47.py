"""C47 emulated OS helper functions return their documented results: OsHelpers.tla states each helper over bit vectors and a byte
region; every recorded call (arguments, memory before / after, result registers) is judged by TLC."""
from .. import core
from .. import exprjson as X

BASE = 0x50000000
N = 96
S1, S2, D = 0, 24, 48

# name -> (module, attribute, convention, argument kinds)   p: pointer into the region, n: count, c: character, v32 / v64: integer
WIN = {
    "RtlLargeIntegerAdd": ("ntdll_RtlLargeIntegerAdd", "stdcall", ["v64", "v64"]),
    "RtlLargeIntegerSubtract": ("ntdll_RtlLargeIntegerSubtract", "stdcall", ["v64", "v64"]),
    "RtlLargeIntegerShiftRight": ("ntdll_RtlLargeIntegerShiftRight", "stdcall", ["v64", "sh"]),
    "RtlEnlargedUnsignedMultiply": ("ntdll_RtlEnlargedUnsignedMultiply", "stdcall", ["v32", "v32"]),
    "RtlExtendedIntegerMultiply": ("ntdll_RtlExtendedIntegerMultiply", "stdcall", ["v64", "v32"]),
    "RtlCompareMemory": ("ntdll_RtlCompareMemory", "stdcall", ["p", "p", "n"]),
    "RtlComputeCrc32": ("ntdll_RtlComputeCrc32", "stdcall", ["v32", "p", "n"]),
    "lstrlenA": ("kernel32_lstrlenA", "stdcall", ["p"]),
    "lstrlenW": ("kernel32_lstrlenW", "stdcall", ["pw"]),
    "lstrcpyA": ("kernel32_lstrcpyA", "stdcall", ["d", "p"]),
    "lstrcpyW": ("kernel32_lstrcpyW", "stdcall", ["d", "pw"]),
    "lstrcatA": ("kernel32_lstrcatA", "stdcall", ["d", "p"]),
    "lstrcatW": ("kernel32_lstrcatW", "stdcall", ["dw", "pw"]),
    "lstrcpynA": ("kernel32_lstrcpyn", "stdcall", ["d", "p", "n1"]),
    "lstrcmpA": ("kernel32_lstrcmpA", "stdcall", ["p", "p"]),
    "lstrcmpiA": ("kernel32_lstrcmpiA", "stdcall", ["p", "p"]),
    "lstrcmpW": ("kernel32_lstrcmpW", "stdcall", ["pw", "pw"]),
    "wcscmp": ("msvcrt_wcscmp", "cdecl", ["pw", "pw"]),
    "_wcsicmp": ("msvcrt__wcsicmp", "cdecl", ["pw", "pw"]),
    "_wcsnicmp": ("msvcrt__wcsnicmp", "cdecl", ["pw", "pw", "n"]),
    "wcslen": ("msvcrt_wcslen", "cdecl", ["pw"]),
    "wcscpy": ("msvcrt_wcscpy", "cdecl", ["d", "pw"]),
    "wcscat": ("msvcrt_wcscat", "cdecl", ["dw", "pw"]),
    "wcsncpy": ("msvcrt_wcsncpy", "cdecl", ["d", "pw", "n"]),
    "memcmp": ("msvcrt_memcmp", "cdecl", ["p", "p", "n"]),
    "memcpy": ("msvcrt_memcpy", "cdecl", ["d", "p", "n"]),
    "memset": ("msvcrt_memset", "cdecl", ["d", "c", "n"]),
    "strrchr": ("msvcrt_strrchr", "cdecl", ["p", "c"]),
}
LIN = {
    "strlen": ("xxx_strlen", "systemv", ["p"]),
    "strcpy": ("xxx_strcpy", "systemv", ["d", "p"]),
    "strcmp": ("xxx_strcmp", "systemv", ["p", "p"]),
    "strncmp": ("xxx_strncmp", "systemv", ["p", "p", "n"]),
    "memcpy": ("xxx_memcpy", "systemv", ["d", "p", "n"]),
    "memset": ("xxx_memset", "systemv", ["d", "c", "n"]),
    "isprint": ("xxx_isprint", "systemv", ["c"]),
}
EDGE32 = [0, 1, 2, 0x7fffffff, 0x80000000, 0xffffffff, 0xfffffffe, 0x10000, 0xffff]
EDGE64 = [0, 1, 0xffffffff, 0x100000000, 0x7fffffffffffffff, 0x8000000000000000, 0xffffffffffffffff, 0xfffffffeffffffff, 0x1ffffffff]


def region(rng, wide, high):
    """three areas: two source strings (sharing a random prefix, so that comparisons meet equal / prefix / differing cases) and a
    destination holding a short string followed by a fill"""
    def chars(k):
        if wide:
            return [rng.choice([0x41, 0x61, 0x42, 0x62, 0x7a, 0x5a, 0x30, 0x141, 0x3b1, 0xff, 0x100, 0x20]) for _ in range(k)]
        if high:
            return [rng.choice([0x41, 0x61, 0x80, 0x81, 0x9f, 0xa0, 0xe9, 0xff, 0x8d]) for _ in range(k)]
        return [rng.choice([0x41, 0x61, 0x42, 0x62, 0x7a, 0x5a, 0x30, 0x7f, 0x01, 0x20, 0x2e]) for _ in range(k)]

    def enc(cs):
        if wide:
            out = []
            for c in cs:
                out += [c & 0xff, c >> 8]
            return out + [0, 0]
        return cs + [0]
    maxc = 5 if wide else 10
    common = chars(rng.randrange(0, 4))
    a = common + chars(rng.randrange(0, maxc - len(common)))
    b = list(a) if rng.random() < 0.25 else common + chars(rng.randrange(0, maxc - len(common)))
    if rng.random() < 0.15 and a:
        b = [c ^ 0x20 if 0x41 <= (c & ~0x20) <= 0x5a else c for c in a]        # same letters, other case
    d = chars(rng.randrange(0, 3))
    m = [rng.randrange(1, 256) for _ in range(N)]
    for off, s in ((S1, enc(a)), (S2, enc(b))):
        m[off:off + len(s)] = s
    m[S2 - 2:S2] = [0, 0]
    m[D - 2:D] = [0, 0]
    e = enc(d)
    m[D:N] = [0xcc] * (N - D)
    m[D:D + len(e)] = e
    m[N - 2:N] = [0, 0]
    return m


def gen_call(rng, name, kinds, high=False):
    wide = any(k in ("pw", "dw") for k in kinds)
    m = region(rng, wide, high)
    srcs = [S1, S2]
    rng.shuffle(srcs)
    args, raw = [], []
    for k in kinds:
        if k in ("p", "pw"):
            o = srcs.pop() if srcs else S1
            if rng.random() < 0.15 and (m[o] or (wide and m[o + 1])):
                o += 2 if wide else 1                      # inside the string (never past its terminator)
            args.append(o)
            raw.append(BASE + o)
        elif k in ("d", "dw"):
            args.append(D)
            raw.append(BASE + D)
        elif k == "n":
            n = rng.choice([0, 1, 2, 3, 4, 5, 8, 12, 16])
            args.append(n)
            raw.append(n)
        elif k == "n1":
            n = rng.choice([1, 2, 3, 4, 5, 6, 7, 8, 9, 10, 11, 12])
            args.append(n)
            raw.append(n)
        elif k == "sh":
            n = rng.choice([0, 1, 7, 8, 31, 32, 33, 47, 63])
            args.append(n)
            raw.append(n)
        elif k == "c":
            c = rng.choice([0x41, 0x61, 0x7a, 0, 0x20, 0x7e, 0x7f, 0x1f, 0x30, 0x141, 0x2e])
            args.append(c)
            raw.append(c)
        elif k == "v32":
            v = rng.choice(EDGE32 + [rng.getrandbits(32)] * 3)
            args.append(list(v.to_bytes(4, "little")))
            raw.append(v)
        elif k == "v64":
            v = rng.choice(EDGE64 + [rng.getrandbits(64)] * 3)
            args.append(list(v.to_bytes(8, "little")))
            raw += [v & 0xffffffff, v >> 32]
    return m, args, raw


class Caller(object):
    def __init__(self):
        from miasm.analysis.machine import Machine
        from miasm.core.locationdb import LocationDB
        from miasm.jitter.csts import PAGE_READ, PAGE_WRITE
        from miasm.os_dep import win_api_x86_32 as win
        from miasm.os_dep import linux_stdlib as lin
        self.win, self.lin = win, lin
        self.j32 = Machine("x86_32").jitter(LocationDB(), "python")
        self.j64 = Machine("x86_64").jitter(LocationDB(), "python")
        for j in (self.j32, self.j64):
            j.init_stack()
            j.vm.add_memory_page(BASE, PAGE_READ | PAGE_WRITE, b"\x00" * 0x1000, "region")

    def call(self, fam, name, m, raw):
        attr, conv, _ = (WIN if fam == "win" else LIN)[name]
        if fam == "win":
            j, f = self.j32, getattr(self.win, attr)
            j.vm.set_mem(BASE, bytes(m))
            sp = j.cpu.ESP
            for a in reversed(raw):
                j.push_uint32_t(a & 0xffffffff)
            j.push_uint32_t(0x1337beef)
            j.cpu.EAX = j.cpu.EDX = 0x5a5a5a5a
            try:
                f(j)
            finally:
                esp_after = j.cpu.ESP
                j.cpu.ESP = sp
            ret = list(int(j.cpu.EAX).to_bytes(4, "little")) + list(int(j.cpu.EDX).to_bytes(4, "little"))
            # stdcall pops its arguments, cdecl leaves them
            want = sp if conv == "stdcall" else sp - 4 * len(raw)
            if esp_after != want:
                raise AssertionError("stack pointer after the call: %#x, expected %#x" % (esp_after, want))
        else:
            j, f = self.j64, getattr(self.lin, attr)
            j.vm.set_mem(BASE, bytes(m))
            sp = j.cpu.RSP
            regs = ["RDI", "RSI", "RDX"]
            for r, a in zip(regs, raw):
                setattr(j.cpu, r, a)
            j.push_uint64_t(0x1337beef)
            j.cpu.RAX = 0x5a5a5a5a5a5a5a5a
            try:
                f(j)
            finally:
                j.cpu.RSP = sp
            ret = list(int(j.cpu.RAX).to_bytes(8, "little"))
        return ret, list(j.vm.get_mem(BASE, N))


def run(ctx):
    q = ctx.quick
    rng = ctx.rng
    caller = Caller()
    items, meta = [], []
    import os
    per = int(os.environ.get("C47_PER", 150 if q else 1500))
    for fam, table in (("win", WIN), ("lin", LIN)):
        for name, (attr, conv, kinds) in sorted(table.items()):
            stringy = any(k in ("p", "d") for k in kinds) and name not in ("memcmp", "memcpy", "memset", "RtlCompareMemory", "RtlComputeCrc32")
            for n in range(per):
                high = stringy and n % 6 == 5
                m, args, raw = gen_call(rng, name, kinds, high)
                raised = ""
                try:
                    with core.deadline(10):
                        ret, m1 = caller.call(fam, name, m, raw)
                except Exception as ex:
                    ret, m1, raised = [0] * 8, m, type(ex).__name__ + ":" + str(ex)[:80].replace('"', "'")
                items.append({"f": name, "a": args + ["-"], "m0": m, "m1": m1, "ret": ret, "raised": raised,
                              "base": list(BASE.to_bytes(4, "little"))})
                meta.append((fam, name, high, raw, m))
    verdicts = X.judge(ctx, items, label="c47", module="OsJudge", chunk=2500)
    counts = {}
    for v, mt, it in zip(verdicts, meta, items):
        fam, name, high, raw, m = mt
        key = "%s:%s%s" % (fam, name, ":bytes>=0x80" if high else "")
        c = counts.setdefault(key, {"ok": 0, "bad": 0})
        c["ok" if v == "ok" else "bad"] += 1
        if v == "ok":
            continue
        detail = {"family": fam, "function": name, "arguments": [hex(x) for x in raw], "region_at": hex(BASE), "memory_before": bytes(m).hex(),
                  "memory_after": bytes(it["m1"]).hex(), "result_registers": bytes(it["ret"]).hex(), "verdict": v}
        if high and "ansi-strings-beyond-ascii" in ctx.findings:
            ctx.known("ansi-strings-beyond-ascii", "%s%r: %s" % (name, tuple(hex(x) for x in raw), v))
            continue
        ctx.violation("helper-result-differs", detail)
    ctx.traces += len(items)
    ctx.evaluations += len(items)
    ctx.distinct = set((mt[0], mt[1], tuple(mt[3])) for mt in meta)
    for k in (0, len(meta) // 2, len(meta) - 1):
        ctx.sample({"function": meta[k][1], "arguments": [hex(x) for x in meta[k][3]], "tlc_verdict": verdicts[k]})
    ctx.notes["calls_per_function"] = counts
    ctx.assumptions += ["x86-32 python-backend jitter for the Windows stubs (stdcall / cdecl, arguments pushed), x86-64 for linux_stdlib "
                        "(System V registers); one 96-byte region holds every buffer; source and destination never overlap",
                        "documented results as stated in OsHelpers.tla: comparisons by sign, case-insensitive ones over ASCII letters, "
                        "RtlExtendedIntegerMultiply with a signed 32-bit multiplier, shift counts 0..63, lstrcpyn counts >= 1"]
    return ("%d calls per helper (%d helpers: NT large-integer arithmetic, RtlCompareMemory, RtlComputeCrc32, lstr* / msvcrt / libc string "
            "and memory functions, narrow and wide) with edge and random integers, strings sharing prefixes / equal / differing by case, "
            "counts 0..16: result registers, returned pointers, the whole region after the call and the stack discipline are judged by "
            "TLC against OsHelpers.tla (bit-vector arithmetic, C string semantics, table-less CRC-32)" % (per, len(WIN) + len(LIN)))
