"""C05 z3 translation agrees with the reference semantics (Expr.tla), both byte orders."""
from .. import core, transcheck
from .. import exprjson as X


def make_eval(endian_flag):
    import z3
    from miasm.ir.translators.z3_ir import TranslatorZ3

    def translate_eval(e, sizes, envs):
        tr = TranslatorZ3(endianness=endian_flag)
        term = tr.from_expr(e)
        out = []
        for env in envs:
            subs = [(z3.BitVec(nm, w), z3.BitVecVal(env["ids"][nm], w)) for nm, w in sizes.items()]
            t = z3.simplify(z3.substitute(term, *subs)) if subs else z3.simplify(term)
            # memory: replace select(mem, constant address) by the environment's byte, innermost first
            for _ in range(64):
                if z3.is_bv_value(t):
                    break
                sel = find_const_select(z3, t)
                if sel is None:
                    break
                addr = sel.arg(1).as_long()
                t = z3.simplify(z3.substitute(t, (sel, z3.BitVecVal(X.mem_byte(addr, env["seed"]), 8))))
            if not z3.is_bv_value(t):
                raise RuntimeError("z3 term did not evaluate to a numeral: %s" % str(t)[:200])
            out.append(t.as_long())
        return out
    return translate_eval


def find_const_select(z3, t):
    todo = [t]
    seen = set()
    while todo:
        x = todo.pop()
        if x.get_id() in seen:
            continue
        seen.add(x.get_id())
        if z3.is_select(x) and z3.is_bv_value(x.arg(1)) and z3.is_const(x.arg(0)):
            return x
        todo.extend(x.children())
    return None


def run(ctx):
    try:
        import z3  # noqa
    except ImportError:
        raise core.MachineryError("z3 python bindings missing: run setup.sh")
    q = ctx.quick
    small, exprs = transcheck.corpus(ctx, 700 if q else 8000, 250 if q else 3000, (1, 2) if q else (1, 2, 3))
    if q:
        small = [e for e in small if e.size <= 2][:0] + ctx.rng.sample(small, min(len(small), 2500))
    n = transcheck.run_translator(ctx, "C05", "z3_le", make_eval("<"), small, exprs, endians=("little",))
    n += transcheck.run_translator(ctx, "C05", "z3_be", make_eval(">"), [], exprs[:len(exprs) // 2], endians=("big",))
    ctx.assumptions += ["Expr.tla/BV.tla is the reference; memory is the fixed address function",
                        "operators for which the translator raises NotImplementedError are unsupported (legal)",
                        "points where the reference is undefined (division by zero) impose nothing"]
    return ("expressions (enumerated small trees under all valuations, random and rule-shaped trees at widths 1..128 "
            "under boundary+random valuations) translated by TranslatorZ3, evaluated by z3 under the valuation, judged "
            "by TLC against Expr.tla; both byte orders")
