"""C08 expressions are canonical (hash-consed) values that round-trip through serialization: Intern.tla."""
import copy
import pickle

from .. import core, sm

NAMES = {"n_a": "a", "n_b": "b", "n_sq": "it's", "n_dq": 'say "x"', "n_bs": "back\\slash", "n_nl": "new\nline", "n_tab": "t\tab",
         "n_uni": "été", "n_both": "a'b\"c", "n_sp": "x y", "n_empty": "", "n_num": "0", "n_kw": "ExprId('x', 8)"}
KINDS = ["repr", "pickle", "deepcopy", "copy", "replace", "visit"]


def ID(n, w):
    return {"k": "id", "n": n, "w": w}


def INT(v, w):
    return {"k": "int", "v": v, "w": w}


def OP(op, *a):
    return {"k": "op", "op": op, "a": list(a)}


def SL(a, lo, hi):
    return {"k": "slice", "a": a, "lo": lo, "hi": hi}


def AS(d, s):
    # bw: width of the sliced base (the spec's normalisation needs it; it is the width of d's argument)
    return {"k": "assign", "d": d, "s": s, "bw": width(d["a"]) if d["k"] == "slice" else width(d)}


def small_pool():
    a, one, one2 = ID("n_a", 8), INT(1, 8), INT(257, 8)
    plus = OP("+", a, one)
    sl = SL(plus, 0, 4)
    return [a, one, one2, INT(1, 16), plus, OP("+", a, one2), OP("+", one, a), sl, {"k": "compose", "a": [sl, sl]},
            {"k": "cond", "c": a, "t": plus, "f": one}, {"k": "mem", "p": a, "w": 16}, OP("==", a, one2), ID("n_sq", 8), INT(255, 8),
            OP("-", INT(-1 % 512, 8)),
            AS(SL(a, 2, 6), sl), AS(a, {"k": "compose", "a": [SL(a, 0, 2), sl, SL(a, 6, 8)]}), AS(SL(a, 0, 8), plus), AS(a, plus)]


def big_pool(rng):
    pool = []
    for nm in NAMES:
        for w in (1, 8, 64, 128):
            pool.append(ID(nm, w))
    for w in (1, 2, 7, 8, 16, 28):
        for v in (0, 1, (1 << w) - 1, 1 << w, (1 << w) + 1, 3 << (w - 1)):
            pool.append(INT(v, w))
    for w in (32, 64, 65, 128, 256):
        pool.append(INT(1, w))
        pool.append(INT(0, w))
    leaves8 = [k for k in pool if k["w"] == 8]
    for _ in range(40):
        x, y = rng.choice(leaves8), rng.choice(leaves8)
        c = rng.random()
        if c < 0.3:
            pool.append(OP(rng.choice(["+", "^", "&", "==", "<u", "parity", "-"][:5]), x, y))
        elif c < 0.45:
            pool.append(OP(rng.choice(["parity", "-"]), x))
        elif c < 0.6:
            pool.append(SL(x, rng.randrange(0, 4), rng.randrange(4, 9)))
        elif c < 0.75:
            pool.append({"k": "compose", "a": [x, y, x][:rng.randrange(1, 4)]})
        elif c < 0.9:
            pool.append({"k": "cond", "c": x, "t": y, "f": x})
        else:
            pool.append({"k": "mem", "p": x, "w": rng.choice([8, 16, 32, 64])})
    ids8 = [k for k in leaves8 if k["k"] == "id"]
    for _ in range(12):
        base = rng.choice([k for k in pool if k["k"] == "id" and k["w"] in (8, 64)])
        lo = rng.randrange(0, base["w"] - 1)
        hi = rng.randrange(lo + 1, base["w"] + 1)
        src = rng.choice([k for k in pool if k["k"] == "id" and k["w"] == 64])
        pool.append(AS(SL(base, lo, hi), SL(src, 0, hi - lo)))
        pool.append(AS(base, ID(rng.choice(sorted(NAMES)), base["w"])))
    operands = [k for k in pool[-64:] if k["k"] != "assign"]
    for _ in range(25):
        x, y = rng.choice(operands), rng.choice(operands)
        wx = width(x)
        if wx == width(y):
            pool.append(OP(rng.choice(["+", "^"]), x, y))
        pool.append({"k": "compose", "a": [x, y]})
        pool.append(SL(x, 0, max(1, wx // 2)))
    return pool


def width(k):
    t = k["k"]
    if t in ("int", "id", "mem"):
        return k["w"]
    if t == "slice":
        return k["hi"] - k["lo"]
    if t == "cond":
        return width(k["t"])
    if t == "compose":
        return sum(width(x) for x in k["a"])
    if t == "assign":
        return k["bw"]
    if k["op"] in ("==", "<u", "<s", "parity"):
        return 1
    return width(k["a"][0])


def construct(k):
    import miasm.expression.expression as m
    t = k["k"]
    if t == "int":
        return m.ExprInt(k["v"], k["w"])
    if t == "id":
        return m.ExprId(NAMES[k["n"]], k["w"])
    if t == "mem":
        return m.ExprMem(construct(k["p"]), k["w"])
    if t == "slice":
        return m.ExprSlice(construct(k["a"]), k["lo"], k["hi"])
    if t == "cond":
        return m.ExprCond(construct(k["c"]), construct(k["t"]), construct(k["f"]))
    if t == "compose":
        return m.ExprCompose(*[construct(x) for x in k["a"]])
    if t == "assign":
        return m.ExprAssign(construct(k["d"]), construct(k["s"]))
    return m.ExprOp(k["op"], *[construct(x) for x in k["a"]])


class H(object):
    pass


class Adapter(object):
    def new(self, acfg):
        h = H()
        h.keys = acfg["keys"]
        h.objs = []         # distinct live objects in order of first appearance (kept alive: ids are not recycled)
        return h

    def token(self, h, e, register=True):
        for i, o in enumerate(h.objs):
            if o is e:
                return i
        # canonical-value cross-checks against every live object
        for o in h.objs:
            if (o == e) or (hash(o) == hash(e) and repr(o) == repr(e)):
                raise AssertionError("two distinct objects are equal expressions: %r" % (e,))
        if register:
            h.objs.append(e)
            return len(h.objs) - 1
        return -1

    def apply(self, h, o):
        from miasm.expression.parser import str_to_expr
        k = h.keys[o["i"] - 1]
        e = construct(k)
        if o["op"] == "Build":
            return "%d:%d" % (self.token(h, e), e.size)
        kind = o["kind"]
        if kind == "repr":
            r = str_to_expr(repr(e))
        elif kind == "pickle":
            r = pickle.loads(pickle.dumps(e))
        elif kind == "deepcopy":
            r = copy.deepcopy(e)
        elif kind == "copy":
            r = e.copy()
        elif kind == "replace":
            r = e.replace_expr({})
        elif kind == "visit":
            r = e.visit(lambda x: x)
        else:
            raise core.MachineryError(kind)
        if hash(r) != hash(e) and r == e:
            raise AssertionError("equal expressions hash differently")
        return "%d:%d" % (self.token(h, r), r.size)

    def project(self, h):
        toks = []
        for k in h.keys:
            e = construct(k)
            toks.append(self.token(h, e, register=False))
            if e.size != width(k):
                raise AssertionError("width of %r is %d, components give %d" % (e, e.size, width(k)))
        return {"toks": toks, "n": len(h.objs)}


def gen_op(rng, h, acfg):
    n = len(acfg["keys"])
    built = []
    for i, k in enumerate(h.keys):
        try:
            if Adapter().token(h, construct(k), register=False) >= 0:
                built.append(i + 1)
        except Exception:
            pass            # reported by the event that builds it
    if built and rng.random() < 0.55:
        return {"op": "Identity", "kind": rng.choice(KINDS), "i": rng.choice(built)}
    return {"op": "Build", "i": rng.randrange(1, n + 1)}


def consts(ctx, keys, label):
    """TLC evaluates InternKeys.tla on the pool (normalisation, equality of structural keys, width rule) and the
    resulting tables become the constants of Intern.tla"""
    import json
    text = "---- MODULE IK_%s ----\nEXTENDS InternKeys\nC_Keys == %s\n====\n" % (label, core.tla_val(keys))
    cfg = "INIT Init\nNEXT Next\nCHECK_DEADLOCK FALSE\nCONSTANT Keys <- C_Keys\n"
    res = core.run_tlc(ctx, "IK_" + label, text, cfg, workers=1, timeout=900)
    ctx.add_tlc(res)
    tabs = [p for p in res.prints if p.startswith("TABLES ")]
    if not tabs:
        raise core.MachineryError("InternKeys produced no tables: " + "\n".join(res.tail[-20:]))
    t = json.loads(tabs[0][7:])
    return {"N": str(len(keys)), "RepF": core.tla_val(t["rep"]), "WidthF": core.tla_val(t["w"]),
            "Kinds": core.tla_set(core.tla_str(k) for k in KINDS)}


def run(ctx):
    ad = Adapter()
    keys = small_pool()
    inv = ("Injective", "TokensDense")
    sm.gen_replay(ctx, "Intern", consts(ctx, keys, "small"), 3 if ctx.quick else 4, ad, acfg={"keys": keys}, invariants=inv,
                  properties=("NeverForgets",), timeout=3000)
    pool = big_pool(ctx.rng)
    ntr = 150 if ctx.quick else 1500
    traces = sm.record_traces(ad, {"keys": pool}, gen_op, ntr, 40, ctx.rng)
    c = consts(ctx, pool, "big")
    sm.trace_validate(ctx, "Intern", c, traces)

    def corrupt(ts):
        ev = ts[0][-1]
        t, w = ev["ret"].split(":")
        ev["ret"] = "%d:%s" % (int(t) + 1, w)
        return "token off by one"
    sm.selftest_trace_binding(ctx, "Intern", c, traces, corrupt)
    ctx.assumptions += ["the textual / pickle formats are not modelled: round-trips are identity events of the hash-consing machine",
                        "tokens are object identities of objects kept alive by the driver"]
    return ("construction and identity round-trip histories (repr->parse, pickle, deepcopy, copy, replace nothing, visit) over a "
            "15-key pool (exhaustive, every abstract state x operation) and a pool of ~180 keys with awkward names and widths "
            "1..256 (recorded histories validated by TLC): one live object per structural key, equal <=> identical, equal hashes, "
            "width determined by components")
