"""Generators of abstract-ISA programs / scripts / configurations for the jitter properties, and the parallel player."""
import multiprocessing
import os
import tempfile

from . import core
from . import jitdrv as D

P0 = D.DATA
P1 = D.DATA + 0x1000
WINDOW = [P0, P0 + 1, P0 + 2, P0 + 3, P0 + 0xffc, P0 + 0xffd, P0 + 0xffe, P0 + 0xfff, P1, P1 + 1, P1 + 2]
PAGESETS = {
    "rw": [{"base": P0, "size": 0x1000, "perm": "rw"}],
    "ro": [{"base": P0, "size": 0x1000, "perm": "ro"}],
    "none": [],
    "rw+ro": [{"base": P0, "size": 0x1000, "perm": "rw"}, {"base": P1, "size": 0x1000, "perm": "ro"}],
    "rw+rw": [{"base": P0, "size": 0x1000, "perm": "rw"}, {"base": P1, "size": 0x1000, "perm": "rw"}],
    "ro+rw": [{"base": P0, "size": 0x1000, "perm": "ro"}, {"base": P1, "size": 0x1000, "perm": "rw"}],
    "wo": [{"base": P0, "size": 0x1000, "perm": "wo"}],
    "rw+wo": [{"base": P0, "size": 0x1000, "perm": "rw"}, {"base": P1, "size": 0x1000, "perm": "wo"}],
}
REPAIRED = PAGESETS["rw+rw"]


def gen_prog(rng, n=None, mem=True, patch=False, loop=None):
    """a terminating program: at most one backward branch, a JNZ guarded by the DEC just before it"""
    n = n or rng.randrange(3, 9)
    prog = []
    loop = rng.random() < 0.5 if loop is None else loop
    loop_at = rng.randrange(1, n) if loop and n >= 3 else None
    use_loop_ins = loop_at is not None and rng.random() < 0.4
    for s in range(n):
        if use_loop_ins and s == loop_at:
            # LOOP decrements cnt and branches while it is not zero; it may branch to itself
            prog.append({"k": "LOOP", "t": rng.choice([s, s, rng.randrange(0, s + 1)])})
            continue
        if loop_at is not None and not use_loop_ins and s == loop_at and s + 1 < n:
            prog.append({"k": "DEC"})
            continue
        if loop_at is not None and not use_loop_ins and s == loop_at + 1 and prog[-1]["k"] == "DEC":
            prog.append({"k": "JNZ", "t": rng.randrange(0, loop_at + 1)})
            continue
        c = rng.random()
        if c < 0.38:
            prog.append({"k": "RT", "i": rng.randrange(1, 120)})
        elif c < 0.55:
            prog.append({"k": "PU", "i": rng.randrange(1, 120)})
        elif c < 0.62 and s + 2 <= n:
            # (never onto the loop's own branch: that would skip the DEC guarding it)
            tg = [t for t in range(s + 1, n + 1) if loop_at is None or use_loop_ins or t != loop_at + 1]
            prog.append({"k": rng.choice(["JMP", "JNZ"]), "t": rng.choice(tg)} if tg else {"k": "RT", "i": rng.randrange(1, 120)})
        elif c < 0.8 and mem:
            k = rng.random()
            if k < 0.4:
                prog.append({"k": "ST", "a": rng.choice([P0, P0 + 2, P0 + 0xfff, P1, P1 + 1]), "v": rng.randrange(1, 200)})
            elif k < 0.65:
                prog.append({"k": "ST4", "a": rng.choice([P0, P0 + 0xffc, P0 + 0xffe, P0 + 0xffd, P1]), "v": rng.randrange(1, 200)})
            elif k < 0.8:
                prog.append({"k": "LD", "a": rng.choice([P0 + 1, P0 + 2, P0 + 0xfff, P1, P1 + 2])})
            elif k < 0.9:
                prog.append({"k": "PUM", "a": rng.choice([P0, P0 + 0xffc, P0 + 0xffe, P1, P1 + 4])})
            else:
                prog.append({"k": "INCM", "a": rng.choice([P0 + 1, P0 + 0xfff, P1, P1 + 1])})
        elif c < 0.9 and patch:
            prog.append({"k": "PATCH", "s": -1, "v": rng.randrange(1, 120)})
        else:
            prog.append({"k": "RT", "i": rng.randrange(1, 120)})
    # patches target RT / PU slots (first, middle or last byte of blocks: any slot)
    targets = [i for i, x in enumerate(prog) if x["k"] in ("RT", "PU")]
    # at most one string store into code per program (its pointer moves on after the store), outside loops
    if patch and targets and rng.random() < 0.35:
        cand = [i for i, x in enumerate(prog) if x["k"] in ("RT", "PU") and (loop_at is None or i > loop_at + 1)]
        if cand:
            at = rng.choice(cand)
            tg = [t for t in targets if t != at]
            if tg:
                prog[at] = {"k": "PATCHS", "s": rng.choice(tg)}
                targets = tg
    for x in prog:
        if x["k"] == "PATCH":
            if targets:
                x["s"] = rng.choice(targets)
            else:
                x.clear()
                x.update({"k": "RT", "i": 3})
    return prog


def needs_fault(prog, pages, stackok):
    """does some memory instruction of the program touch a byte it may not access (reachable or not)?"""
    def writable(a):
        return any(p["base"] <= a < p["base"] + p["size"] and p["perm"] in ("rw", "wo") for p in pages)

    def readable(a):
        return any(p["base"] <= a < p["base"] + p["size"] and p["perm"] in ("rw", "ro") for p in pages)
    for x in prog:
        if x["k"] == "ST" and not writable(x["a"]):
            return True
        if x["k"] == "ST4" and not all(writable(x["a"] + k) for k in range(4)):
            return True
        if x["k"] == "LD" and not readable(x["a"]):
            return True
        if x["k"] == "PU" and not stackok:
            return True
        if x["k"] == "PUM" and not (stackok and all(readable(x["a"] + k) for k in range(4))):
            return True
        if x["k"] == "INCM" and not (readable(x["a"]) and writable(x["a"])):
            return True
    return False


def make_item(rng, prog, pageset="rw", stackok=True):
    return {"prog": prog, "acc": [rng.randrange(0, 65536), rng.randrange(0, 65536)], "cnt": rng.randrange(1, 4), "stackok": stackok,
            "pages": PAGESETS[pageset], "repaired": REPAIRED, "window": WINDOW, "fuel": 400}


# ---------------------------------------------------------------------------------------------------------------------
_TMP = None


def _init_worker(base):
    d = tempfile.mkdtemp(dir=base)
    os.environ["TMPDIR"] = d
    tempfile.tempdir = d


class _Timeout(Exception):
    pass


def _alarm(signum, frame):
    raise _Timeout()


def _play(job):
    import signal
    item, script, backend, cfg = job
    signal.signal(signal.SIGALRM, _alarm)
    signal.alarm(240)
    try:
        return _play1(job)
    except _Timeout:
        return [{"stop": "crashed", "pc": -1, "acchi": 0, "acclo": 0, "cnt": 0, "stack": [], "window": [], "hits": [], "fault": False, "below": "untouched",
                 "below": "untouched", "crashed": "did not finish within 240 s"}]
    finally:
        signal.alarm(0)


def _play1(job):
    item, script, backend, cfg = job
    try:
        p = D.Player(backend, item["prog"], item, maxline=cfg.get("maxline", 50), maxexec=cfg.get("maxexec", 0),
                     cache_max=cfg.get("cache_max"))
        return p.play(script)
    except Exception as ex:
        return [{"stop": "crashed", "pc": -1, "acchi": 0, "acclo": 0, "cnt": 0, "stack": [], "window": [], "hits": [], "fault": False, "below": "untouched",
                 "crashed": "driver:" + type(ex).__name__ + ":" + str(ex)[:80]}]


HANG = {"stop": "crashed", "pc": -1, "acchi": 0, "acclo": 0, "cnt": 0, "stack": [], "window": [], "hits": [], "fault": False, "below": "untouched",
        "crashed": "did not finish (the run loops inside the backend)"}


def _worker(base, jobs, idxs, path):
    import json
    _init_worker(base)
    with open(path, "a") as f:
        for i in idxs:
            f.write("S %d\n" % i)
            f.flush()
            r = _play1(jobs[i])
            f.write("R %d %s\n" % (i, json.dumps(r)))
            f.flush()


def play_all(ctx, jobs):
    """jobs: list of (item, script, backend, cfg) -> list of observation lists.  Workers are separate processes with one
    TMPDIR each; a job that makes no progress for 180 s (a loop inside compiled code cannot be interrupted from Python) is
    recorded as 'did not finish' and its worker is replaced."""
    import json
    import time
    base = ctx.sub("jit_tmp")
    n = len(jobs)
    results = [None] * n
    nproc = min(core.NCPU, max(1, n))
    mp = multiprocessing.get_context("fork")
    workers = []          # (process, path, remaining idxs)
    for w in range(nproc):
        idxs = list(range(w, n, nproc))
        path = os.path.join(base, "w%d_0.log" % w)
        pr = mp.Process(target=_worker, args=(base, jobs, idxs, path))
        pr.start()
        workers.append([pr, path, idxs, 0])
    while workers:
        time.sleep(0.5)
        for w in list(workers):
            pr, path, idxs, gen = w
            started, done = None, set()
            try:
                for line in open(path):
                    if line.startswith("R "):
                        _, i, js = line.split(" ", 2)
                        if results[int(i)] is None:
                            results[int(i)] = json.loads(js)
                        done.add(int(i))
                    elif line.startswith("S "):
                        started = int(line.split()[1])
                mtime = os.path.getmtime(path)
            except (OSError, ValueError):
                mtime = time.time()
            if not pr.is_alive():
                pr.join()
                rest = [i for i in idxs if i not in done and results[i] is None]
                if rest and pr.exitcode != 0:
                    # the worker died on job `started`
                    if started is not None and results[started] is None:
                        results[started] = [dict(HANG, crashed="backend process died (exit %s)" % pr.exitcode)]
                    rest = [i for i in rest if results[i] is None]
                workers.remove(w)
                if rest:
                    npath = os.path.join(base, os.path.basename(path).split("_")[0] + "_%d.log" % (gen + 1))
                    npr = mp.Process(target=_worker, args=(base, jobs, rest, npath))
                    npr.start()
                    workers.append([npr, npath, rest, gen + 1])
                continue
            if time.time() - mtime > 180 and started is not None and started not in done:
                pr.kill()
                pr.join()
                results[started] = [dict(HANG)]
                rest = [i for i in idxs if i not in done and results[i] is None]
                workers.remove(w)
                if rest:
                    npath = os.path.join(base, os.path.basename(path).split("_")[0] + "_%d.log" % (gen + 1))
                    npr = mp.Process(target=_worker, args=(base, jobs, rest, npath))
                    npr.start()
                    workers.append([npr, npath, rest, gen + 1])
    for i in range(n):
        if results[i] is None:
            results[i] = [dict(HANG, crashed="no result")]
    return results


def judge_jobs(ctx, jobs, label):
    """play, then let TLC judge; returns list of (verdict, job, obs)"""
    obs = play_all(ctx, jobs)
    items = []
    for (item, script, backend, cfg), o in zip(jobs, obs):
        it = dict(item)
        it["script"] = script
        it["obs"] = o + [{"stop": "-", "pc": -9, "acchi": 0, "acclo": 0, "cnt": 0, "stack": [], "window": [], "hits": [], "fault": False, "below": "untouched",
                          "crashed": "missing observation"}]
        items.append(it)
    verdicts = D.judge(ctx, items, label)
    return list(zip(verdicts, jobs, obs))


def describe(job):
    item, script, backend, cfg = job
    return {"backend": backend, "config": cfg, "program": item["prog"], "script": script, "pages": [(hex(p["base"]), p["perm"]) for p in item["pages"]],
            "stack_mapped": item["stackok"], "acc": item["acc"], "cnt": item["cnt"]}


def gen_mbp(rng, prog=()):
    """a memory breakpoint on the data window: read, write or both, 1-4 bytes, possibly straddling the page end; mostly on
    (or just below) an address the program really accesses"""
    used = [(x["a"], x["k"]) for x in prog if x["k"] in ("LD", "ST", "ST4")]
    if used and rng.random() < 0.8:
        a, k = rng.choice(used)
        a -= rng.choice([0, 0, 1]) if k != "ST4" else rng.choice([0, -1, -3, 1])
        r = (k == "LD") if rng.random() < 0.8 else (k != "LD")
        return {"c": "addmbp", "a": a, "n": rng.choice([1, 1, 2, 4]), "r": r, "w": (not r) or rng.random() < 0.3}
    a = rng.choice([P0, P0 + 1, P0 + 2, P0 + 0xffd, P0 + 0xfff, P1, P1 + 1])
    r = rng.random() < 0.6
    return {"c": "addmbp", "a": a, "n": rng.choice([1, 1, 2, 4]), "r": r, "w": (not r) or rng.random() < 0.4}


def templates(rng):
    """fixed scenarios every jitter check plays on every backend / configuration (the random corpus moves whenever a generator
    changes; these do not): watchpoints hit by instructions that only read / only write, not on the first byte of the access, by
    an instruction in the middle of a block; code patched later in the block being executed; a loop around them"""
    i = lambda: rng.randrange(1, 120)
    out = []
    # read watchpoint hit by a load in the middle of a block, then by a 4-byte read whose first byte is not watched
    prog = [{"k": "RT", "i": i()}, {"k": "LD", "a": P0 + 2}, {"k": "RT", "i": i()}, {"k": "PUM", "a": P0 + 0x10}, {"k": "RT", "i": i()},
            {"k": "LD", "a": P1 + 2}, {"k": "RT", "i": i()}]
    for mb in ([{"c": "addmbp", "a": P0 + 2, "n": 1, "r": True, "w": False}],
               [{"c": "addmbp", "a": P0 + 0x12, "n": 1, "r": True, "w": False}],
               [{"c": "addmbp", "a": P0 + 0x13, "n": 2, "r": True, "w": True}, {"c": "addmbp", "a": P1 + 2, "n": 1, "r": True, "w": False}]):
        out.append((prog, mb + [{"c": "run", "s": 0}, {"c": "cont"}, {"c": "cont"}, {"c": "cont"}], "rw+rw", True))
    # write watchpoint hit by a store in the middle of a block, by the last byte of a 4-byte store, by a read-modify-write
    prog = [{"k": "RT", "i": i()}, {"k": "ST", "a": P0 + 1, "v": 7}, {"k": "RT", "i": i()}, {"k": "ST4", "a": P0 + 0x20, "v": 9}, {"k": "RT", "i": i()},
            {"k": "INCM", "a": P1 + 1}, {"k": "RT", "i": i()}, {"k": "RT", "i": i()}]
    for mb in ([{"c": "addmbp", "a": P0 + 1, "n": 1, "r": False, "w": True}],
               [{"c": "addmbp", "a": P0 + 0x23, "n": 1, "r": False, "w": True}],
               [{"c": "addmbp", "a": P1 + 1, "n": 1, "r": True, "w": False}],
               [{"c": "addmbp", "a": P1 + 1, "n": 1, "r": False, "w": True}, {"c": "addmbp", "a": P0 + 0x21, "n": 2, "r": False, "w": True}]):
        out.append((prog, mb + [{"c": "run", "s": 0}, {"c": "cont"}, {"c": "cont"}, {"c": "cont"}], "rw+rw", True))
    # a counted loop over a watched load
    prog = [{"k": "RT", "i": i()}, {"k": "LD", "a": P0 + 1}, {"k": "RT", "i": i()}, {"k": "DEC"}, {"k": "JNZ", "t": 1}, {"k": "RT", "i": i()}]
    out.append((prog, [{"c": "addmbp", "a": P0 + 1, "n": 1, "r": True, "w": False}, {"c": "run", "s": 0}] + [{"c": "cont"}] * 4, "rw", True))
    # code patched further down the block being executed, and just behind
    prog = [{"k": "RT", "i": i()}, {"k": "PATCH", "s": 3, "v": i()}, {"k": "RT", "i": i()}, {"k": "RT", "i": i()}, {"k": "PU", "i": i()}]
    out.append((prog, [{"c": "run", "s": 0}], "rw", True))
    prog = [{"k": "RT", "i": i()}, {"k": "PATCH", "s": 2, "v": i()}, {"k": "PU", "i": i()}, {"k": "RT", "i": i()}]
    out.append((prog, [{"c": "run", "s": 0}], "rw", True))
    prog = [{"k": "PU", "i": i()}, {"k": "RT", "i": i()}, {"k": "PATCH", "s": 0, "v": i()}, {"k": "DEC"}, {"k": "JNZ", "t": 0}, {"k": "RT", "i": i()}]
    out.append((prog, [{"c": "run", "s": 0}], "rw", True))
    return out
