---------------------------------- MODULE BV ----------------------------------
(* Fixed-width two's-complement semantics of miasm's IR operators, defined at bit *)
(* level so that one definition serves every width (1..256).  A bit-vector is a   *)
(* sequence of 0/1 whose index 1 is the least significant bit.                    *)
(* The module is self-checked by BVTest.tla, which compares every operator with   *)
(* its integer-arithmetic definition exhaustively for small widths.               *)
EXTENDS Integers, Sequences

Zero(w) == [i \in 1..w |-> 0]
Ones(w) == [i \in 1..w |-> 1]
One(w) == [i \in 1..w |-> IF i = 1 THEN 1 ELSE 0]
Bit(b) == <<b>>
Msb(x) == x[Len(x)]
BNot(x) == [i \in 1..Len(x) |-> 1 - x[i]]
BAnd(x, y) == [i \in 1..Len(x) |-> x[i] * y[i]]
BOr(x, y) == [i \in 1..Len(x) |-> IF x[i] + y[i] > 0 THEN 1 ELSE 0]
BXor(x, y) == [i \in 1..Len(x) |-> (x[i] + y[i]) % 2]
IsZero(x) == \A i \in 1..Len(x) : x[i] = 0
B2I(b) == IF b THEN 1 ELSE 0

RECURSIVE FromNat(_, _)
FromNat(n, w) == IF w = 0 THEN <<>> ELSE <<n % 2>> \o FromNat(n \div 2, w - 1)
RECURSIVE ToNatFrom(_, _)
ToNatFrom(x, i) == IF i > Len(x) THEN 0 ELSE x[i] + 2 * ToNatFrom(x, i + 1)
ToNat(x) == ToNatFrom(x, 1)                 \* only for widths below 31
ToInt(x) == IF Len(x) > 0 /\ Msb(x) = 1 THEN ToNat(x) - 2 * ToNat([i \in 1..Len(x) |-> IF i = Len(x) THEN 1 ELSE 0]) ELSE ToNat(x)

(* value of x capped at cap (for shift counts of any width) *)
RECURSIVE NatCapFrom(_, _, _)
NatCapFrom(x, i, cap) == IF i = 0 THEN 0
                         ELSE LET hi == NatCapFrom(x, i - 1, cap)   \* unused ordering helper
                              IN 0
RECURSIVE CapAcc(_, _, _, _)
CapAcc(x, i, acc, cap) == IF i = 0 THEN acc
                          ELSE LET v == 2 * acc + x[i] IN CapAcc(x, i - 1, IF v > cap THEN cap ELSE v, cap)
NatCap(x, cap) == CapAcc(x, Len(x), 0, cap)
RECURSIVE ModAcc(_, _, _, _)
ModAcc(x, i, acc, m) == IF i = 0 THEN acc ELSE ModAcc(x, i - 1, (2 * acc + x[i]) % m, m)
NatMod(x, m) == ModAcc(x, Len(x), 0, m)      \* value of x modulo m (for rotation counts)

(* ---- addition / subtraction ---------------------------------------------------- *)
RECURSIVE AddC(_, _, _, _)
AddC(x, y, c, i) == IF i > Len(x) THEN <<>>
                    ELSE LET s == x[i] + y[i] + c IN <<s % 2>> \o AddC(x, y, s \div 2, i + 1)
RECURSIVE CarryAt(_, _, _, _, _)          \* carry into bit position k (k = Len+1: carry out)
CarryAt(x, y, c, i, k) == IF i = k THEN c ELSE CarryAt(x, y, (x[i] + y[i] + c) \div 2, i + 1, k)
CarryOut(x, y, c) == CarryAt(x, y, c, 1, Len(x) + 1)
CarryIn(x, y, c) == CarryAt(x, y, c, 1, Len(x))          \* carry into the sign bit
Add(x, y) == AddC(x, y, 0, 1)
Sub(x, y) == AddC(x, BNot(y), 1, 1)
Neg(x) == AddC(BNot(x), Zero(Len(x)), 1, 1)
Ult(x, y) == CarryOut(x, BNot(y), 1) = 0
Ule(x, y) == ~Ult(y, x)
Slt(x, y) == IF Msb(x) # Msb(y) THEN Msb(x) = 1 ELSE Ult(x, y)
Sle(x, y) == ~Slt(y, x)

(* ---- shifts and rotations (n is a natural number) ------------------------------ *)
ShlN(x, n) == [i \in 1..Len(x) |-> IF i - n >= 1 THEN x[i - n] ELSE 0]
LshrN(x, n) == [i \in 1..Len(x) |-> IF i + n <= Len(x) THEN x[i + n] ELSE 0]
AshrN(x, n) == [i \in 1..Len(x) |-> IF i + n <= Len(x) THEN x[i + n] ELSE Msb(x)]
RolN(x, n) == [i \in 1..Len(x) |-> x[((i - 1 - n) % Len(x)) + 1]]
RorN(x, n) == [i \in 1..Len(x) |-> x[((i - 1 + n) % Len(x)) + 1]]
Cap == 100000
Shl(x, y) == ShlN(x, NatCap(y, Cap))         \* count >= width gives zero
Lshr(x, y) == LshrN(x, NatCap(y, Cap))
Ashr(x, y) == AshrN(x, NatCap(y, Cap))       \* count >= width gives sign fill
Rol(x, y) == RolN(x, NatMod(y, Len(x)))      \* rotations are taken modulo the width
Ror(x, y) == RorN(x, NatMod(y, Len(x)))

(* ---- multiplication, division --------------------------------------------------- *)
RECURSIVE MulAcc(_, _, _, _)
MulAcc(x, y, i, acc) == IF i > Len(x) THEN acc
                        ELSE MulAcc(x, y, i + 1, IF y[i] = 1 THEN Add(acc, ShlN(x, i - 1)) ELSE acc)
Mul(x, y) == MulAcc(x, y, 1, Zero(Len(x)))

Ext1(x) == x \o <<0>>                       \* one more bit for the running remainder
RECURSIVE DivAcc(_, _, _, _, _)
DivAcc(x, d1, i, q, r) ==                   \* schoolbook long division, d1 = Ext1(d)
  IF i = 0 THEN <<q, SubSeq(r, 1, Len(x))>>
  ELSE LET r2 == <<x[i]>> \o SubSeq(r, 1, Len(r) - 1)
           ge == ~Ult(r2, d1)
       IN DivAcc(x, d1, i - 1, [q EXCEPT ![i] = B2I(ge)], IF ge THEN Sub(r2, d1) ELSE r2)
UDivMod(x, d) == DivAcc(x, Ext1(d), Len(x), Zero(Len(x)), Zero(Len(x) + 1))   \* d # 0
UDiv(x, d) == UDivMod(x, d)[1]
UMod(x, d) == UDivMod(x, d)[2]
Abs(x) == IF Msb(x) = 1 THEN Neg(x) ELSE x
(* signed division truncates toward zero; the remainder takes the dividend's sign *)
SDiv(x, d) == LET q == UDiv(Abs(x), Abs(d)) IN IF Msb(x) # Msb(d) THEN Neg(q) ELSE q
SMod(x, d) == LET r == UMod(Abs(x), Abs(d)) IN IF Msb(x) = 1 THEN Neg(r) ELSE r

(* ---- counting ------------------------------------------------------------------- *)
RECURSIVE PopLow(_, _)
PopLow(x, i) == IF i = 0 THEN 0 ELSE (IF i <= Len(x) THEN x[i] ELSE 0) + PopLow(x, i - 1)
Parity(x) == <<(PopLow(x, 8) + 1) % 2>>      \* 1 iff the low byte has an even number of set bits
RECURSIVE ClzFrom(_, _)
ClzFrom(x, i) == IF i = 0 THEN 0 ELSE IF x[i] = 1 THEN 0 ELSE 1 + ClzFrom(x, i - 1)
Clz(x) == FromNat(ClzFrom(x, Len(x)), Len(x))        \* width on zero
RECURSIVE CtzFrom(_, _)
CtzFrom(x, i) == IF i > Len(x) THEN 0 ELSE IF x[i] = 1 THEN 0 ELSE 1 + CtzFrom(x, i + 1)
Ctz(x) == FromNat(CtzFrom(x, 1), Len(x))

(* ---- extension, slicing, composition -------------------------------------------- *)
ZeroExt(x, n) == [i \in 1..n |-> IF i <= Len(x) THEN x[i] ELSE 0]
SignExt(x, n) == [i \in 1..n |-> IF i <= Len(x) THEN x[i] ELSE Msb(x)]
Slice(x, lo, hi) == SubSeq(x, lo + 1, hi)            \* bits lo..hi-1
RECURSIVE Concat(_)
Concat(xs) == IF xs = <<>> THEN <<>> ELSE Head(xs) \o Concat(Tail(xs))   \* first = least significant

(* ---- flags (arithmetic definitions) ---------------------------------------------- *)
(* a + b + c: carry = unsigned overflow; overflow = carry into sign # carry out of sign *)
AddCF(x, y, c) == CarryOut(x, y, c)
AddOF(x, y, c) == B2I(CarryIn(x, y, c) # CarryOut(x, y, c))
(* a - b - c = a + ~b + (1 - c): borrow = no carry out *)
SubCF(x, y, c) == 1 - CarryOut(x, BNot(y), 1 - c)
SubOF(x, y, c) == B2I(CarryIn(x, BNot(y), 1 - c) # CarryOut(x, BNot(y), 1 - c))
SubWC(x, y, c) == AddC(x, BNot(y), 1 - c, 1)
AddWC(x, y, c) == AddC(x, y, c, 1)

(* ---- bytes <-> bits (exchange format: little-endian byte lists) ------------------ *)
P2 == <<1, 2, 4, 8, 16, 32, 64, 128>>
FromBytes(bs, w) == [i \in 1..w |-> (bs[((i - 1) \div 8) + 1] \div P2[((i - 1) % 8) + 1]) % 2]
=============================================================================
