"""Adapter driving the real VmMngr (rebuilt in the overlay) along VmMngr.tla operations."""
import ctypes

from . import core

FLAGBITS = None


class H(object):
    pass


class VmAdapter(object):
    def __init__(self, n, base=0x10000):
        self.n = n
        self.base = base
        self.lib = None

    def _lib(self):
        if self.lib is None:
            import miasm.jitter.VmMngr as V
            lib = ctypes.CDLL(V.__file__)
            for w, ct in ((8, ctypes.c_uint8), (16, ctypes.c_uint16), (32, ctypes.c_uint32), (64, ctypes.c_uint64)):
                f = getattr(lib, "vm_MEM_LOOKUP_%02d" % w)
                f.argtypes = [ctypes.c_void_p, ctypes.c_uint64]
                f.restype = ct
                g = getattr(lib, "vm_MEM_WRITE_%02d" % w)
                g.argtypes = [ctypes.c_void_p, ctypes.c_uint64, ct]
                g.restype = None
            self.lib = lib
        return self.lib

    def new(self, acfg):
        from miasm.jitter.VmMngr import Vm
        h = H()
        h.vm = Vm()
        h.vm.set_little_endian()
        h.endian = "little"
        h.ptr = id(h.vm) + 24          # VmMngr { PyObject_HEAD; PyObject *vmmngr; vm_mngr_t vm_mngr; }
        return h

    def apply(self, h, o):
        vm = h.vm
        B = self.base
        op = o["op"]

        def R(t, b=(), n=0):
            return {"t": t, "b": list(b), "n": n}

        def val(bs):
            return int.from_bytes(bytes(bs), "little")
        try:
            if op == "AddPage":
                vm.add_memory_page(B + o["b"], o["acc"], bytes([o["fill"]]) * o["s"], "p")
            elif op == "RemovePage":
                vm.remove_memory_page(B + o["a"])
            elif op == "SetAccess":
                vm.set_mem_access(B + o["a"], o["acc"])
            elif op == "GetAccess":
                return R("int", n=vm.get_mem_access(B + o["a"]))
            elif op == "IsMapped":
                return R("int", n=int(vm.is_mapped(B + o["a"], o["n"])))
            elif op == "GetMem":
                return R("bytes", vm.get_mem(B + o["a"], o["n"]))
            elif op == "SetMem":
                vm.set_mem(B + o["a"], bytes(o["q"]))
            elif op == "GetU":
                v = getattr(vm, "get_u%d" % (8 * o["w"]))(B + o["a"])
                return R("bytes", v.to_bytes(o["w"], "little"))
            elif op == "SetU":
                getattr(vm, "set_u%d" % (8 * o["w"]))(B + o["a"], val(o["v"]))
            elif op == "EmuRead":
                v = getattr(self._lib(), "vm_MEM_LOOKUP_%02d" % (8 * o["w"]))(h.ptr, B + o["a"])
                return R("bytes", int(v).to_bytes(o["w"], "little"))
            elif op == "EmuWrite":
                getattr(self._lib(), "vm_MEM_WRITE_%02d" % (8 * o["w"]))(h.ptr, B + o["a"], val(o["v"]))
            elif op == "AddMemBp":
                vm.add_memory_breakpoint(B + o["a"], o["s"], o["kind"])
            elif op == "RemoveMemBp":
                vm.remove_memory_breakpoint(B + o["a"], o["kind"])
            elif op == "CheckMemBp":
                vm.check_memory_breakpoint()
            elif op == "ResetAccess":
                vm.reset_memory_access()
            elif op == "ClearFlags":
                vm.set_exception(0)
            elif op == "SetEndian":
                (vm.set_little_endian if o["e"] == "little" else vm.set_big_endian)()
                h.endian = o["e"]
            elif op == "AddCode":
                vm.add_code_bloc(B + o["a"], B + o["b"])
            elif op == "CheckCode":
                vm.check_invalid_code_blocs()
            else:
                raise core.MachineryError(op)
        except RuntimeError:
            return R("RuntimeError")
        except TypeError:
            return R("TypeError")
        return R("none")

    def project(self, h):
        from miasm.jitter import csts
        vm = h.vm
        B = self.base
        mem, acc = [], []
        for a in range(self.n):
            if vm.is_mapped(B + a, 1):
                mem.append(vm.get_mem(B + a, 1)[0])
                acc.append(vm.get_mem_access(B + a))
            else:
                mem.append(-1)
                acc.append(-1)

        def expand(lst):
            out = set()
            for start, stop in lst:
                out.update(range(start - B, stop - B))
            return out
        fl = vm.get_exception()
        flags = set()
        if fl & (1 << 14):
            flags.add("AV")
        if fl & csts.EXCEPT_BREAKPOINT_MEMORY:
            flags.add("BPM")
        if fl & csts.EXCEPT_CODE_AUTOMOD:
            flags.add("AUTOMOD")
        known = csts.EXCEPT_ACCESS_VIOL | csts.EXCEPT_BREAKPOINT_MEMORY | csts.EXCEPT_CODE_AUTOMOD
        if fl & ~known:
            flags.add("OTHER:%x" % (fl & ~known))
        assert bool(vm.is_little_endian()) == (h.endian == "little")
        return {"mem": mem, "acc": acc, "endian": h.endian, "rset": expand(vm.get_memory_read()),
                "wset": expand(vm.get_memory_write()), "flags": flags}
