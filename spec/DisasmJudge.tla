------------------------------ MODULE DisasmJudge ------------------------------
(* Batch judge: every item is one buffer (its single-instruction decoding at every offset) with the blocks recursive disassembly gave *)
EXTENDS Disasm, Json, IOUtils
VARIABLES lo, hi
Items == JsonDeserialize(IOEnv.ITEMS_FILE)
Init == lo = 1 /\ hi = Len(Items)
Next == /\ lo < hi
        /\ LET mid == (lo + hi) \div 2 IN
           \/ (lo' = lo /\ hi' = mid)
           \/ (lo' = mid + 1 /\ hi' = hi)
Report == lo < hi \/ PrintT("V " \o ToString(lo) \o " " \o DVerdict(Items[lo]))
=============================================================================
