------------------------------- MODULE OsHelpers -------------------------------
(* Documented results of the emulated OS helper functions (property C47).          *)
(* Memory is one region m of bytes (a sequence); pointers are 0-based offsets into *)
(* it (the harness adds the region's address); integers are bit vectors (BV.tla).  *)
(* Every reference below reads its inputs from the memory BEFORE the call.         *)
EXTENDS BV

Byte(b) == FromNat(b, 8)
BitsOf(bs) == FromBytes(bs, 8 * Len(bs))                       \* little-endian bytes -> bits
BytesOf(x) == [i \in 1..(Len(x) \div 8) |-> ToNat(SubSeq(x, 8 * (i - 1) + 1, 8 * i))]
Put(m, p, bs) == [i \in 1..Len(m) |-> IF i > p /\ i <= p + Len(bs) THEN bs[i - p] ELSE m[i]]
Get(m, p, n) == SubSeq(m, p + 1, p + n)

(* C strings: the bytes before the first NUL *)
StrLen(m, p) == CHOOSE k \in 0..(Len(m) - p) : (p + k < Len(m) => m[p + k + 1] = 0) /\ \A j \in 0..(k - 1) : m[p + j + 1] # 0
Str(m, p) == Get(m, p, StrLen(m, p))
(* wide strings: 16-bit units before the first zero unit *)
WUnit(m, p, i) == m[p + 2 * i + 1] + 256 * m[p + 2 * i + 2]
WLen(m, p) == CHOOSE k \in 0..((Len(m) - p) \div 2) : WUnit(m, p, k) = 0 /\ \A j \in 0..(k - 1) : WUnit(m, p, j) # 0
WStr(m, p) == [i \in 1..WLen(m, p) |-> WUnit(m, p, i - 1)]
WBytes(us) == [i \in 1..(2 * Len(us)) |-> IF i % 2 = 1 THEN us[(i + 1) \div 2] % 256 ELSE us[i \div 2] \div 256]

RECURSIVE CmpSeq(_, _)
CmpSeq(x, y) == IF x = <<>> /\ y = <<>> THEN 0 ELSE IF x = <<>> THEN -1 ELSE IF y = <<>> THEN 1
                ELSE IF Head(x) < Head(y) THEN -1 ELSE IF Head(x) > Head(y) THEN 1 ELSE CmpSeq(Tail(x), Tail(y))
Lower(c) == IF c >= 65 /\ c <= 90 THEN c + 32 ELSE c
LowerSeq(s) == [i \in 1..Len(s) |-> Lower(s[i])]
Take(s, n) == SubSeq(s, 1, IF n < Len(s) THEN n ELSE Len(s))
RECURSIVE Prefix(_, _)
Prefix(x, y) == IF x = <<>> \/ y = <<>> \/ Head(x) # Head(y) THEN 0 ELSE 1 + Prefix(Tail(x), Tail(y))
LastIndex(s, c) == IF \E i \in 1..Len(s) : s[i] = c THEN CHOOSE i \in 1..Len(s) : s[i] = c /\ \A j \in (i + 1)..Len(s) : s[j] # c ELSE 0

(* CRC-32 (IEEE 802.3, reflected, polynomial EDB88320) continued from a previous value *)
Poly == BitsOf(<<32, 131, 184, 237>>)
RECURSIVE CrcBits(_, _)
Force(x) == SubSeq(x, 1, Len(x))                  \* an explicit sequence (TLC keeps function constructors symbolic otherwise)
CrcBits(c, n) == IF n = 0 THEN c ELSE CrcBits(Force(IF c[1] = 1 THEN BXor(LshrN(c, 1), Poly) ELSE LshrN(c, 1)), n - 1)
RECURSIVE CrcBytes(_, _)
CrcBytes(c, bs) == IF bs = <<>> THEN c ELSE CrcBytes(CrcBits(BXor(c, ZeroExt(Byte(Head(bs)), 32)), 8), Tail(bs))
Crc32(init, bs) == BNot(CrcBytes(BNot(init), bs))

(* results: [k |-> "v64" | "v32" | "sign" | "ptr" | "len", v |-> bits, s |-> sign, o |-> offset, m |-> memory after] *)
R64(v, m) == [k |-> "v64", v |-> v, s |-> 0, o |-> 0, m |-> m]
R32(v, m) == [k |-> "v32", v |-> v, s |-> 0, o |-> 0, m |-> m]
RSign(s, m) == [k |-> "sign", v |-> <<>>, s |-> s, o |-> 0, m |-> m]
RPtr(o, m) == [k |-> "ptr", v |-> <<>>, s |-> 0, o |-> o, m |-> m]
RNat(n, m) == R32(FromNat(n, 32), m)

(* it.a: arguments - integers are byte sequences (4 or 8 bytes), pointers and counts are small naturals *)
Ref(it) ==
  LET f == it.f  a == it.a  m == it.m0 IN
  CASE f = "RtlLargeIntegerAdd" -> R64(Add(BitsOf(a[1]), BitsOf(a[2])), m)
    [] f = "RtlLargeIntegerSubtract" -> R64(Sub(BitsOf(a[1]), BitsOf(a[2])), m)
    [] f = "RtlLargeIntegerShiftRight" -> R64(LshrN(BitsOf(a[1]), a[2]), m)                  \* count 0..63
    [] f = "RtlEnlargedUnsignedMultiply" -> R64(Mul(ZeroExt(BitsOf(a[1]), 64), ZeroExt(BitsOf(a[2]), 64)), m)
    [] f = "RtlExtendedIntegerMultiply" -> R64(Mul(BitsOf(a[1]), SignExt(BitsOf(a[2]), 64)), m)   \* LARGE_INTEGER x LONG
    [] f = "RtlCompareMemory" -> RNat(Prefix(Get(m, a[1], a[3]), Get(m, a[2], a[3])), m)
    [] f = "RtlComputeCrc32" -> R32(Crc32(BitsOf(a[1]), Get(m, a[2], a[3])), m)
    [] f \in {"lstrlenA", "strlen"} -> RNat(StrLen(m, a[1]), m)
    [] f \in {"lstrlenW", "wcslen"} -> RNat(WLen(m, a[1]), m)
    [] f \in {"lstrcpyA", "strcpy"} -> RPtr(a[1], Put(m, a[1], Str(m, a[2]) \o <<0>>))
    [] f \in {"lstrcpyW", "wcscpy"} -> RPtr(a[1], Put(m, a[1], WBytes(WStr(m, a[2])) \o <<0, 0>>))
    [] f = "lstrcatA" -> RPtr(a[1], Put(m, a[1] + StrLen(m, a[1]), Str(m, a[2]) \o <<0>>))
    [] f \in {"lstrcatW", "wcscat"} -> RPtr(a[1], Put(m, a[1] + 2 * WLen(m, a[1]), WBytes(WStr(m, a[2])) \o <<0, 0>>))
    [] f = "lstrcpynA" -> RPtr(a[1], Put(m, a[1], Take(Str(m, a[2]), a[3] - 1) \o <<0>>))      \* count >= 1
    [] f \in {"lstrcmpA", "strcmp"} -> RSign(CmpSeq(Str(m, a[1]), Str(m, a[2])), m)
    [] f = "lstrcmpiA" -> RSign(CmpSeq(LowerSeq(Str(m, a[1])), LowerSeq(Str(m, a[2]))), m)
    [] f \in {"lstrcmpW", "wcscmp"} -> RSign(CmpSeq(WStr(m, a[1]), WStr(m, a[2])), m)
    [] f = "_wcsicmp" -> RSign(CmpSeq(LowerSeq(WStr(m, a[1])), LowerSeq(WStr(m, a[2]))), m)
    [] f = "_wcsnicmp" -> RSign(CmpSeq(Take(LowerSeq(WStr(m, a[1])), a[3]), Take(LowerSeq(WStr(m, a[2])), a[3])), m)
    [] f = "strncmp" -> RSign(CmpSeq(Take(Str(m, a[1]), a[3]), Take(Str(m, a[2]), a[3])), m)
    [] f = "memcmp" -> RSign(CmpSeq(Get(m, a[1], a[3]), Get(m, a[2], a[3])), m)
    [] f = "memcpy" -> RPtr(a[1], Put(m, a[1], Get(m, a[2], a[3])))
    [] f = "memset" -> RPtr(a[1], Put(m, a[1], [i \in 1..a[3] |-> a[2] % 256]))
    (* wcsncpy: exactly n units are written - the string, then zero padding; no terminator when the string has n units or more *)
    [] f = "wcsncpy" -> RPtr(a[1], Put(m, a[1], WBytes([i \in 1..a[3] |-> IF i <= WLen(m, a[2]) THEN WUnit(m, a[2], i - 1) ELSE 0])))
    [] f = "strrchr" -> LET i == LastIndex(Str(m, a[1]) \o <<0>>, a[2] % 256) IN
                        IF i = 0 THEN RNat(0, m) ELSE RPtr(a[1] + i - 1, m)
    [] f = "isprint" -> [k |-> "bool", v |-> <<>>, s |-> IF a[1] % 256 >= 32 /\ a[1] % 256 < 127 THEN 1 ELSE 0, o |-> 0, m |-> m]

SignOf(bs) == IF BitsOf(bs) = Zero(8 * Len(bs)) THEN 0 ELSE IF Msb(BitsOf(bs)) = 1 THEN -1 ELSE 1
(* observed: it.ret (8 bytes: low then high result register), it.m1, it.raised, it.base (4 bytes: address of the region), it.rw (width of the result register in bytes) *)
OVerdict(it) ==
  IF it.raised # "" THEN "bad:raised:" \o it.raised
  ELSE LET r == Ref(it) IN
       IF r.k = "v64" /\ BitsOf(it.ret) # r.v THEN "bad:result"
       ELSE IF r.k = "v32" /\ BitsOf(SubSeq(it.ret, 1, 4)) # r.v THEN "bad:result"
       ELSE IF r.k = "sign" /\ SignOf(SubSeq(it.ret, 1, 4)) # r.s THEN "bad:sign-of-the-result"
       ELSE IF r.k = "bool" /\ (IF SignOf(SubSeq(it.ret, 1, 4)) = 0 THEN 0 ELSE 1) # r.s THEN "bad:truth-of-the-result"
       ELSE IF r.k = "ptr" /\ BitsOf(SubSeq(it.ret, 1, 4)) # Add(BitsOf(it.base), FromNat(r.o, 32)) THEN "bad:returned-pointer"
       ELSE IF it.m1 # r.m THEN "bad:memory-after-the-call"
       ELSE "ok"
=============================================================================
