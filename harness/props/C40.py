"""C40 constant propagation preserves behaviour (from states in which every register holds its initial value)."""
from .. import core
from .. import exprjson as X
from .. import irequiv as Q
from .. import irjson as J
from .. import asmgen

MEM_CST = "memory-reads-propagated-as-constants"
REGS32 = ["EAX", "EBX", "ECX", "EDX", "ESI", "EDI", "EBP", "ESP"]


def run(ctx):
    from miasm.analysis.machine import Machine
    from miasm.analysis.cst_propag import propagate_cst_expr
    q = ctx.quick
    rng = ctx.rng
    machine = Machine("x86_32")
    items, meta = [], []
    import os
    for n in range(int(os.environ.get('C40_N', 70 if q else 700))):
        split = rng.random() < 0.5
        gen = asmgen.AsmGen(rng, loops=rng.random() < 0.6, split_cells=split)
        src = gen.function()
        try:
            loc_db, lifter, cfg, head, make = asmgen.build(machine, src)
            orig = Q.graph_json(make())
        except Exception:
            continue
        g = make()
        try:
            init_infos = lifter.arch.regs.regs_init
            propagate_cst_expr(lifter, g, loc_db.get_location_offset(head), init_infos)
            tj = Q.graph_json(g)
        except Exception as ex:
            ctx.violation("constant-propagation-raised", {"source": src, "raised": type(ex).__name__ + ":" + str(ex)[:200]})
            continue
        # every register of the architecture is observed (same names on both sides), plus the flags
        obs = [{"a": r, "b": r, "w": 32} for r in REGS32] + [{"a": f, "b": f, "w": 1} for f in ("zf", "cf", "nf", "of", "pf", "af")]
        sizes = Q.sizes_of(orig, tj)
        for f in ("zf", "cf", "nf", "of", "pf", "af"):
            sizes[f] = 1
        sizes["IRDst"] = 32
        for r in REGS32:
            sizes[r + "_init"] = 32
        for f in ("zf", "cf", "nf", "of", "pf", "af"):
            sizes[f + "_init"] = 1
        envs = Q.make_envs(rng, sizes, 5, REGS32, ())
        # <reg>_init = <reg> for flags too
        for e in envs:
            for f in ("zf", "cf", "nf", "of", "pf", "af"):
                e["ids"][f + "_init"] = e["ids"][f]
        start = J.loc_name(head)
        items.append({"t": "equiv", "a": orig, "b": tj, "starta": start, "startb": start, "w": 32, "obs": obs, "envs": envs,
                      "budget": 120, "ordered": True})
        feats = {"split": split, "loop": bool(make().has_loop()), "push": "PUSH" in src, "store": "PUSH" in src or "PTR [" in src and any(
            l.strip().startswith("MOV") and l.split(",")[0].find("PTR") >= 0 for l in src.split("\n")), "xchg": "XCHG" in src,
            "narrow": "BYTE PTR" in src or "WORD PTR" in src and "DWORD" not in src}
        meta.append((src, feats, orig != tj))
    verdicts = X.judge(ctx, items, label="c40", module="IRJudge", chunk=400)
    counts = {}
    for v, mt in zip(verdicts, meta):
        counts[v.split(":")[0]] = counts.get(v.split(":")[0], 0) + 1
        if v.startswith("bad"):
            loads = any("PTR [" in l.split(",", 1)[-1] for l in mt[0].split("\n") if "," in l and not l.strip().startswith("LEA"))
            if loads and mt[1]["store"] and not mt[1]["split"] and MEM_CST in ctx.findings:
                ctx.known(MEM_CST, "e.g. verdict %s on %s" % (v, mt[0][:300].replace("\n", " ; ")))
                continue
            ctx.violation("propagated-graph-differs", {"source": mt[0], "features": mt[1], "verdict": v})
    ctx.traces += len(items)
    ctx.evaluations += sum(len(i["envs"]) for i in items)
    ctx.distinct = set(m[0] for m in meta)
    for k in (0, len(meta) // 2, len(meta) - 1):
        ctx.sample({"source": meta[k][0][:300], "graph_changed": meta[k][2], "tlc_verdict": verdicts[k]})
    ctx.notes["verdicts"] = counts
    ctx.notes["graphs_changed_by_the_propagation"] = sum(1 for m in meta if m[2])
    ctx.assumptions += ["IRMachine.tla is the concrete semantics; initial states have <reg>_init = <reg> for every register and flag",
                        "functions are random structured x86-32 code without calls"]
    return ("random structured x86-32 functions lifted to IR; propagate_cst_expr rewrites the graph in place and TLC runs the original "
            "and the rewritten graph on IRMachine.tla from initial states where every register holds its initial value: same ordered "
            "memory writes, same exit, same value in every general register and flag")
