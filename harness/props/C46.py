"""C46 the sandboxed file system never escapes its base directory: SandboxFS.tla walks the returned host paths over a model of the
host tree (symbolic links followed the way the kernel does) and requires the landing position inside the base (or a passthrough)."""
import itertools
import os
import re
import shutil
import tempfile

from .. import core
from .. import exprjson as X

BASE = ["T", "cwd", "file_sb"]
CWD = ["T", "cwd"]


def comps_of(path, T):
    """host path string -> (absolute?, components) with the scratch directory abbreviated to "T" """
    if isinstance(path, bytes):
        path = path.decode("latin-1")
    if path == T or path.startswith(T + "/"):
        return True, ["T"] + path[len(T):].split("/")[1:]
    if path.startswith("/"):
        return True, path.split("/")[1:]
    return False, path.split("/")


class Host(object):
    """a scratch host: T/cwd/file_sb (the base) with a small tree, T/cwd/file_sb2 (a sibling whose name extends the base's),
    T/out/secret; links = {position under the base (tuple) : target string}"""

    def __init__(self, links):
        self.T = os.path.realpath(tempfile.mkdtemp(prefix="verif_c46_", dir=os.environ.get("VERIF_SCRATCH_BASE", "/var/tmp")))
        T = self.T
        self.base = os.path.join(T, "cwd", "file_sb")
        for d in ("cwd/file_sb/a/b", "cwd/file_sb/etc", "cwd/file_sb/dev", "cwd/file_sb2", "out", "cwd/file_sb/c:"):
            os.makedirs(os.path.join(T, d))
        for f in ("cwd/file_sb/a/f", "cwd/file_sb/etc/passwd", "cwd/file_sb2/secret", "out/secret", "cwd/secret", "cwd/file_sb/a/b/g"):
            with open(os.path.join(T, f), "w") as fh:
                fh.write(f)
        self.nodes = []
        for root, dirs, files in os.walk(T):
            for d in dirs:
                self.nodes.append({"p": comps_of(os.path.join(root, d), T)[1], "k": "dir", "abs": False, "tgt": []})
            for f in files:
                self.nodes.append({"p": comps_of(os.path.join(root, f), T)[1], "k": "file", "abs": False, "tgt": []})
        self.nodes.append({"p": ["T"], "k": "dir", "abs": False, "tgt": []})
        for pos, tgt in links.items():
            tgt = tgt.replace("$T", T)
            os.symlink(tgt, os.path.join(self.base, *pos))
            a, c = comps_of(tgt, T)
            self.nodes.append({"p": BASE + list(pos), "k": "link", "abs": a, "tgt": c})

    def close(self):
        shutil.rmtree(self.T, ignore_errors=True)

    def fs_json(self, passthrough):
        return {"nodes": self.nodes, "base": BASE, "cwd": CWD, "pass": passthrough + [{"kind": "exact", "p": ["-"]}]}

    def query(self, ret, nofollow=False, real=False):
        T = self.T
        a, c = comps_of(ret, T)
        q = {"abs": a, "comps": c, "nofollow": nofollow, "refused": False, "real": "", "textonly": False}
        if real and not nofollow:
            r = os.path.realpath(ret.decode("latin-1") if isinstance(ret, bytes) else ret)
            if r == T or r.startswith(T + "/"):
                q["real"] = "/T" + r[len(T):]
        return q


REFUSED = {"abs": True, "comps": [], "nofollow": False, "refused": True, "real": "", "textonly": False}
LINK_TARGETS = ["a", "..", "../..", "../../out", "../file_sb2", "a/../..", "/a", "/", "/etc", "/..", "/../out", "$T/out",
                "$T/cwd/file_sb/a", "l", "a/l", "../../../out/secret", "/a/l"]
LINK_TARGETS_QUICK = ["a", "..", "../../out", "/etc", "/../out", "$T/out", "l", "a/l", "../file_sb2"]


def guest_paths(maxlen, names=("a", "l", "f", "..", ".")):
    out = []
    for n in range(0, maxlen + 1):
        for t in itertools.product(names, repeat=n):
            out.append("/" + "/".join(t))
            if t:
                out.append("/".join(t))
    return out


def run(ctx):
    from miasm.os_dep.linux.environment import FileSystem, LinuxEnvironment_x86_64
    from miasm.os_dep import common as oscommon
    q = ctx.quick
    rng = ctx.rng
    items, meta = [], []
    refused = {}
    old_cwd = os.getcwd()
    targets = LINK_TARGETS_QUICK if q else LINK_TARGETS
    trees = [{}]
    for t1 in targets:
        trees.append({("l",): t1})
        for t2 in targets:
            trees.append({("l",): t1, ("a", "l"): t2})
    if q:
        trees = trees[:1] + rng.sample(trees[1:], 45)
    paths = guest_paths(3)
    long_paths = [] if q else guest_paths(4)[len(paths):]
    deep = set() if q else set(id(t) for t in rng.sample(trees[1:], 40))          # thorough: 40 hosts also get every path of 4 names
    extra = ["/a//../..//l/f", "a/./l/../../..", "/l/", "l/.", "/a/l/secret", "/l/secret", "/../file_sb2/secret", "../secret", "//etc/passwd",
             "/etc/../../../etc/passwd", "/dev/../etc/passwd", "/dev/./../l/secret", "/dev/shm/../../l", "/dev/urandom", "/dev",
             "$T/out/pt", "$T/out/pt/../secret", "$T/out/secret", "/l/../../out/secret"]
    wpaths = ["C:\\a\\f", "c:\\..\\..\\secret", "..\\..\\out\\secret", "\\\\?\\C:\\a", "C:/../../secret", "/etc/passwd", "C:\\Temp\\/etc/passwd",
              "a\\..\\..\\file_sb2\\secret", "C:\\l\\secret", "l\\secret", "\\l\\..\\..\\secret", "A\\F", "..", "a\\.\\..\\..", "C:\\a/../../x"]
    try:
        for links in trees:
            host = Host(links)
            os.chdir(os.path.join(host.T, "cwd"))
            T = host.T
            env = LinuxEnvironment_x86_64()
            fs = FileSystem(host.base, env)
            fs.passthrough.append(re.compile(r"/dev/"))
            fs.passthrough.append(T + "/out/pt")
            pj = [{"kind": "prefix", "p": ["dev"]}, {"kind": "exact", "p": ["T", "out", "pt"]}]
            qs, qmeta = [], []

            def call(api, gp, f, nofollow=False, real=True):
                try:
                    ret = f()
                except (AssertionError, RuntimeError, OSError, ValueError) as ex:
                    refused[api + ":" + type(ex).__name__] = refused.get(api + ":" + type(ex).__name__, 0) + 1
                    qs.append(REFUSED)
                    qmeta.append((api, gp, "refused:" + type(ex).__name__))
                    return
                except Exception as ex:
                    ctx.violation("path-resolution-raised", {"api": api, "guest_path": gp, "links": {"/".join(k): v for k, v in links.items()},
                                                             "raised": type(ex).__name__ + ":" + str(ex)[:200]})
                    return
                if ret is None:
                    return
                qs.append(dict(host.query(ret, nofollow, real), textonly=api.endswith("_to_sbpath")))
                qmeta.append((api, gp, ret if isinstance(ret, str) else ret.decode("latin-1")))
            for gp in paths + (long_paths if id(links) in deep else []) + [e.replace("$T", T) for e in extra]:
                call("resolve_path", gp, lambda: fs.resolve_path(gp))
                call("resolve_path(follow_link=False)", gp, lambda: fs.resolve_path(gp, follow_link=False), nofollow=True)
                if len(gp) % 3 == 0:
                    call("resolve_path(bytes)", gp, lambda: fs.resolve_path(gp.encode()))

                def opened():
                    fd = fs.open_(gp, env.O_RDONLY)
                    if fd == -1:
                        return None
                    fdesc = env.file_descriptors[fd]
                    real = getattr(fdesc, "real_fd", None)
                    try:
                        return os.readlink("/proc/self/fd/%d" % real) if real is not None else None
                    finally:
                        env.close(fd)
                if not gp.startswith("/dev"):
                    call("open_", gp, opened, real=False)
                call("unix_to_sbpath", gp, lambda: oscommon.unix_to_sbpath(gp))
            for wp in wpaths:
                call("windows_to_sbpath", wp, lambda: oscommon.windows_to_sbpath(wp))
            items.append(dict(host.fs_json(pj), qs=qs))
            meta.append(({"/".join(k): v for k, v in links.items()}, qmeta))
            os.chdir(old_cwd)
            host.close()
    finally:
        os.chdir(old_cwd)
    verdicts = X.judge(ctx, items, label="c46", module="SandboxJudge", chunk=40)
    nbad = nlink = 0
    per_api = {}
    for v, (links, qmeta) in zip(verdicts, meta):
        for api, _, _ in qmeta:
            per_api[api] = per_api.get(api, 0) + 1
        if v == "ok":
            continue
        parts = v.split(":")
        idx = [int(x) for x in re.findall(r"\d+", parts[1])] if parts[0] != "link" else []
        lidx = [int(x) for x in re.findall(r"\d+", parts[2] if parts[0] == "bad" else parts[1])] if parts[0] in ("bad", "link") else []
        for i in lidx:
            api, gp, ret = qmeta[i - 1]
            nlink += 1
            if "sbpath-helpers-ignore-links" in ctx.findings:
                ctx.known("sbpath-helpers-ignore-links", "%s(%r) = %r with links %r" % (api, gp, ret, links))
            else:
                ctx.violation("escapes-the-sandbox", {"api": api, "guest_path": gp, "returned_host_path": ret, "links_in_the_sandbox": links})
        if v.startswith("model"):
            raise core.MachineryError("SandboxFS.tla's walk disagrees with the host's realpath: links %r, %r" % (links, [qmeta[i - 1] for i in idx[:5]]))
        for i in idx:
            api, gp, ret = qmeta[i - 1]
            nbad += 1
            ctx.violation("escapes-the-sandbox", {"api": api, "guest_path": gp, "returned_host_path": ret.replace(os.sep + "verif_c46_", os.sep + "verif_c46_"),
                                                  "links_in_the_sandbox": links})
    ctx.traces += sum(len(m[1]) for m in meta)
    ctx.evaluations += sum(len(m[1]) for m in meta)
    ctx.distinct = set((tuple(sorted(m[0].items())), a, g) for m in meta[:3] for a, g, _ in m[1])
    for k in (0, len(meta) // 2, len(meta) - 1):
        ctx.sample({"links_in_the_sandbox": meta[k][0], "first_accesses": meta[k][1][:3], "tlc_verdict": verdicts[k]})
    ctx.notes["host_trees"] = len(meta)
    ctx.notes["accesses_leaving_only_through_a_link_the_string_helpers_ignore"] = nlink
    ctx.notes["accesses_per_api"] = per_api
    ctx.notes["refused_accesses"] = refused
    ctx.assumptions += ["hosts: a base with two directories levels, files, up to two symbolic links (targets relative, absolute guest-style, "
                        "absolute host paths, climbing out, chains and loops), a sibling directory whose name extends the base's name, "
                        "an outside directory; passthrough: a prefix regexp (/dev/) and one exact path",
                        "SandboxFS.tla's walk is itself checked against the host's realpath on every returned path inside the scratch directory"]
    return ("for each host tree (exhaustive over the link targets listed, quick: a sample of 45) and each guest path (all sequences up to "
            "3 - thorough: 4 on 40 of the hosts - names over {a, l, f, .., .}, absolute and relative, plus hand-written ones; Windows paths for "
            "windows_to_sbpath): the host path returned by FileSystem.resolve_path (str, bytes, follow_link=False), unix_to_sbpath, "
            "windows_to_sbpath and the file really opened by FileSystem.open_ is walked by TLC over the model of the host "
            "(SandboxFS.tla) and must land inside the base directory or on a passthrough entry")
