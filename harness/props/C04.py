"""C04 generated C (TranslatorC output compiled with gcc against the working tree's op_semantics.c / bn.c)
computes the reference value; evaluating it writes nothing to stdout."""
import os
import re
import subprocess

from .. import core, transcheck
from .. import exprjson as X
from .. import exprgen

HDR = r'''
#include <stdint.h>
#include <stdio.h>
#include <stdlib.h>
#include <string.h>
#include "op_semantics.h"
#include "bn.h"
static uint64_t SEED;
static void* jitcpu = 0;
static FILE* OUT;
static uint8_t mb(uint64_t a) { return (uint8_t)((a & 0xff) + 31 * ((a >> 8) & 0xff) + SEED); }
static uint64_t mrd(uint64_t a, int n) { uint64_t r = 0; int i; for (i = 0; i < n; i++) r |= ((uint64_t)mb(a + i)) << (8 * i); return r; }
#define MEM_LOOKUP_08(j, a) ((uint8_t)mrd((a), 1))
#define MEM_LOOKUP_16(j, a) ((uint16_t)mrd((a), 2))
#define MEM_LOOKUP_32(j, a) ((uint32_t)mrd((a), 4))
#define MEM_LOOKUP_64(j, a) ((uint64_t)mrd((a), 8))
static void outbn(int idx, int k, bn_t r) { int i; fprintf(OUT, "%d %d ", idx, k); for (i = BN_ARRAY_SIZE - 1; i >= 0; i--) fprintf(OUT, "%08x", r.array[i]); fprintf(OUT, "\n"); }
'''


def ctype(w):
    if w <= 8:
        return "uint8_t"
    if w <= 16:
        return "uint16_t"
    if w <= 32:
        return "uint32_t"
    if w <= 64:
        return "uint64_t"
    return "bn_t"


def cval(v, w):
    if w <= 64:
        return "0x%xULL" % v
    n = ((w + 31) // 32) * 8
    return 'bignum_from_string("%0*x", %d)' % (n, v, n)


def c_ident_ok(name):
    return re.match(r"^[A-Za-z_][A-Za-z0-9_]*$", name) is not None


def build_and_run(ctx, work, entries, tag):
    """entries: list of (idx, expr, csrc, sizes, envs).  Returns ({idx: [values or None]}, set(unsupported idx), stdout bytes)."""
    jit = os.path.join(core.REPO, "miasm", "jitter")
    dropped = set()
    runtime_refused = []
    crashed = {}
    for attempt in range(60):
        src = [HDR]
        for idx, e, csrc, sizes, envs in entries:
            if idx in dropped:
                continue
            src.append("static void f_%d(void) {" % idx)
            for k, env in enumerate(envs):
                src.append(" { SEED = %d;" % env["seed"])
                for nm, w in sorted(sizes.items()):
                    src.append("  %s %s = %s;" % (ctype(w), nm, cval(env["ids"][nm], w)))
                if e.size <= 64:
                    src.append("  %s r = (%s)(%s); fprintf(OUT, \"%d %d %%llx\\n\", (unsigned long long)r); }" % (
                        ctype(e.size), ctype(e.size), csrc, idx, k))
                else:
                    src.append("  bn_t r = %s; outbn(%d, %d, r); }" % (csrc, idx, k))
            src.append("}")
        src.append("int main(int argc, char** argv) { OUT = fopen(argv[1], \"w\"); if (!OUT) return 3;")
        for idx, e, csrc, sizes, envs in entries:
            if idx not in dropped:
                src.append(" fprintf(OUT, \"B %d\\n\"); fflush(OUT); f_%d();" % (idx, idx))
        src.append(" fclose(OUT); return 0; }")
        cfile = os.path.join(work, "t_%s.c" % tag)
        with open(cfile, "w") as f:
            f.write("\n".join(src) + "\n")
        exe = os.path.join(work, "t_%s" % tag)
        objs = [os.path.join(work, "op_semantics.o"), os.path.join(work, "bn.o")]
        if not os.path.exists(objs[1]):
            for o, c in zip(objs, ("op_semantics.c", "bn.c")):
                pc = subprocess.run(["gcc", "-O1", "-w", "-fwrapv", "-I", jit, "-c", "-o", o, os.path.join(jit, c)],
                                    capture_output=True, text=True, timeout=900)
                if pc.returncode != 0:
                    raise core.MachineryError("runtime does not compile: " + pc.stderr[:1000])
        p = subprocess.run(["gcc", "-O0", "-w", "-fwrapv", "-I", jit, "-o", exe, cfile] + objs + ["-lm"],
                           capture_output=True, text=True, timeout=900)
        if p.returncode == 0:
            outf = os.path.join(work, "out_%s.txt" % tag)
            try:
                r = subprocess.run([exe, outf], capture_output=True, timeout=30)
            except subprocess.TimeoutExpired:
                class R(object):
                    returncode = -999
                    stderr = b"did not finish within 30 s"
                    stdout = b""
                r = R()
            if r.returncode == 0:
                break
            # the runtime refused an operand width (exit() inside a helper): drop the expression that was running
            last = [l for l in open(outf).read().split("\n") if l.startswith("B ")]
            if not last:
                raise core.MachineryError("compiled expressions crashed rc=%s stderr=%s" % (r.returncode, r.stderr[:500]))
            culprit = int(last[-1].split()[1])
            dropped.add(culprit)
            if r.returncode < 0:
                # abort()/signal inside the generated code or the runtime: the accepted expression has no value at all
                crashed[culprit] = "signal %d: %s" % (-r.returncode, r.stderr[:160].decode("latin1"))
            else:
                runtime_refused.append(r.stderr[:80].decode("latin1"))
            continue
        bad = set(int(x) for x in re.findall(r"[Ii]n function .f_(\d+).", p.stderr))
        if not bad:
            # errors attributed by line number
            lines = open(cfile).read().split("\n")
            for m in re.finditer(r"t_%s\.c:(\d+):\d+: error" % re.escape(tag), p.stderr):
                ln = int(m.group(1))
                for j in range(ln - 1, -1, -1):
                    mm = re.match(r"static void f_(\d+)\(void\)", lines[j])
                    if mm:
                        bad.add(int(mm.group(1)))
                        break
        if not bad or bad <= dropped:
            raise core.MachineryError("gcc failed without attributable function: " + p.stderr[:1500])
        dropped |= bad
    else:
        raise core.MachineryError("gcc / runtime refusals still failing after 40 rounds")
    vals = {}
    for line in open(outf):
        if line.startswith("B "):
            continue
        idx, k, v = line.split()
        vals.setdefault(int(idx), {})[int(k)] = int(v, 16)
    return vals, dropped, r.stdout, crashed


def run(ctx):
    from miasm.ir.translators.C import TranslatorC
    from miasm.expression.simplifications import expr_simp_high_to_explicit
    lowered = [0]
    import miasm.expression.expression as m
    q = ctx.quick
    rng = ctx.rng
    gens = [exprgen.Gen(rng, widths=[8, 16, 32, 64], ptr=32), exprgen.Gen(rng, widths=[8, 16, 32, 64], ptr=64),
            exprgen.Gen(rng, widths=[1, 8, 16, 32, 64], ptr=32)]
    exprs = []
    for _ in range(700 if q else 8000):
        g = rng.choice(gens)
        w = rng.choice([8, 16, 32, 64, 64, rng.choice([1, 3, 7, 24, 33, 48])])
        exprs.append(g.expr(w, rng.choice([1, 2, 2, 3])))
    for _ in range(250 if q else 2500):
        exprs.append(rng.choice(gens).shaped())
    # the big-number path: widths above 64
    gbig = exprgen.Gen(rng, widths=[128, 65, 80, 256], ids_per_width=2, allow_mem=False, div_max_w=256)
    for _ in range(300 if q else 3000):
        w = rng.choice([65, 80, 128, 128, 256])
        exprs.append(gbig.expr(w, rng.choice([1, 1, 2])))
    # one operator at a time over identifiers at every native width and wide widths (operator tables)
    for w in (8, 16, 32, 64, 128):
        a, b = m.ExprId("a%d" % w, w), m.ExprId("b%d" % w, w)
        for op in exprgen.NARY + exprgen.SHIFT + ["udiv", "umod", "sdiv", "smod"] + exprgen.CMP:
            exprs.append(m.ExprOp(op, a, b))
        for op in ["-", "parity", "cntleadzeros", "cnttrailzeros"]:
            exprs.append(m.ExprOp(op, a))
        exprs += [a.zeroExtend(2 * w), a.signExtend(2 * w), a[1:w - 1], m.ExprCompose(a, b), m.ExprCond(a, a, b)]
    # operators that need no width-specific helper, at widths that are not a native C integer width
    for w in (1, 3, 5, 7, 12, 15, 24, 31, 33, 48, 63, 65, 100):
        a, b = m.ExprId("a%d" % w, w), m.ExprId("b%d" % w, w)
        for op in exprgen.NARY + exprgen.CMP:
            exprs.append(m.ExprOp(op, a, b))
        exprs += [m.ExprOp("-", a), m.ExprOp("parity", a), a.zeroExtend(w + 3), a.signExtend(w + 3), a.signExtend(2 * w + 1),
                  m.ExprCompose(a, b), m.ExprCond(a, a, b), m.ExprOp("<s", a, m.ExprInt(0, w)),
                  m.ExprOp("<=s", m.ExprInt((1 << w) - 1, w), b)]
        if w > 1:
            exprs.append(a[1:w])
    tr = TranslatorC()
    entries, unsupported = [], {}
    NATIVE = (8, 16, 32, 64)
    HELPER_OPS = set(exprgen.SHIFT + ["udiv", "umod", "sdiv", "smod", "cntleadzeros", "cnttrailzeros"])

    def too_wide(x):
        found = []

        def visit(n):
            if n.size > 256:
                found.append(n)
            return n
        x.visit(visit)
        return bool(found)

    DIVOPS = {"udiv", "umod", "sdiv", "smod", "/", "%"}

    def has_div(x):
        found = []

        def visit(n):
            if n.is_op() and n.op in DIVOPS:
                found.append(n)
            elif n.is_mem():
                found.append(None)
            return n
        x.visit(visit)
        return any(f is not None for f in found), any(f is None for f in found)

    def defined_envs(x, sizes, envs):
        """input filter only: a division by zero is undefined (the runtime exits or loops there); miasm's constant
        folding leaves exactly those points unfolded"""
        from miasm.expression.simplifications import expr_simp
        keep = []
        for env in envs:
            r = expr_simp(x.replace_expr({m.ExprId(nm, w): m.ExprInt(env["ids"][nm], w) for nm, w in sizes.items()}))
            if r.is_int():
                keep.append(env)
        return keep

    def helper_on_odd_width(x):
        found = []

        def visit(n):
            if n.is_op() and n.op in HELPER_OPS and n.args[0].size <= 64 and n.args[0].size not in NATIVE:
                found.append(n)
            return n
        x.visit(visit)
        return bool(found)
    work = ctx.sub("c04")
    for idx, e in enumerate(exprs):
        try:
            X.to_json(e)
        except ValueError:
            continue
        sizes = X.ids_of(e)
        if not all(c_ident_ok(n) for n in sizes):
            continue
        if too_wide(e):
            continue            # bn_t holds 256 bits
        if helper_on_odd_width(e):
            # op_semantics' shift/rotate/division/count helpers exist for uint8/16/32/64 operands only
            unsupported["helper on non-native width"] = unsupported.get("helper on non-native width", 0) + 1
            continue
        try:
            csrc = tr.from_expr(e)
        except NotImplementedError as ex:
            unsupported[str(ex)[:50]] = unsupported.get(str(ex)[:50], 0) + 1
            # the jitter lowers flag / condition-code operators before translating: try the lowered form
            # (judged against the lowered expression itself, so that the translator alone is on trial)
            try:
                low = expr_simp_high_to_explicit(e)
                if low == e or too_wide(low) or helper_on_odd_width(low):
                    continue
                csrc = tr.from_expr(low)
                e = low
                lowered[0] += 1
            except Exception:
                continue
        except Exception as ex:
            # the property is conditional on the translator accepting the expression: a refusal of any kind is recorded
            key = "refused:" + type(ex).__name__
            unsupported[key] = unsupported.get(key, 0) + 1
            continue
        if not isinstance(csrc, str):
            ctx.violation("c-translation-not-text", {"expr": str(e), "returned": repr(csrc)[:200]})
            continue
        envs = X.make_envs(sizes, rng, 6)
        dv, mem = has_div(e)
        if dv:
            if mem:
                continue        # the filter below cannot fold memory reads
            envs = defined_envs(e, sizes, envs)
            if not envs:
                continue
        entries.append((idx, e, csrc, sizes, envs))
    items, meta = [], []
    stdout_total = 0
    CH = 400
    for c in range(0, len(entries), CH):
        part = entries[c:c + CH]
        vals, dropped, out, crashed = build_and_run(ctx, work, part, "b%d" % c)
        stdout_total += len(out)
        if out:
            ctx.violation("generated-c-wrote-to-stdout", {"bytes": len(out), "head": out[:200].decode("latin1"),
                                                          "expressions": [str(p[1]) for p in part[:5]]})
        for idx, e, csrc, sizes, envs in part:
            if idx in crashed:
                ctx.violation("generated-c-crashed", {"expr": str(e), "c": csrc[:300], "how": crashed[idx]})
                continue
            if idx in dropped:
                unsupported["does not compile"] = unsupported.get("does not compile", 0) + 1
                ctx.notes.setdefault("not_compilable_samples", [])
                if len(ctx.notes["not_compilable_samples"]) < 5:
                    ctx.notes["not_compilable_samples"].append(str(e)[:120])
                continue
            vs = vals.get(idx, {})
            items.append({"t": "vals", "a": X.to_json(e), "envs": [X.env_json(v, sizes) for v in envs],
                          "vs": [X.ibytes(vs[k] & ((1 << (8 * ((e.size + 7) // 8))) - 1), 8 * ((e.size + 7) // 8))[:(e.size + 7) // 8] if k in vs else [0]
                                 for k in range(len(envs))]})
            meta.append((e, csrc, envs, vs))
    # TLC compares FromBytes(vs, w): bits above w in the container are checked here (they must be zero)
    for e, csrc, envs, vs in meta:
        if e.size <= 64:
            for k, v in vs.items():
                if v >> e.size:
                    ctx.violation("c-value-exceeds-width", {"expr": str(e), "c": csrc[:300], "env": envs[k], "value": hex(v)})
                    break
    verdicts = X.judge(ctx, items, label="c04", chunk=2500)
    counts = {}
    for v, mt in zip(verdicts, meta):
        key = v.split(":")[0]
        counts[key] = counts.get(key, 0) + 1
        if key == "bad":
            k = int(v.split(":")[1]) - 1
            ctx.violation("c-value-mismatch", {"expr": str(mt[0]), "c": mt[1][:400], "env": mt[2][k], "c_value": hex(mt[3].get(k, 0)),
                                               "verdict": v})
    ctx.traces += len(items)
    ctx.evaluations += sum(len(i["envs"]) for i in items)
    ctx.distinct = set(str(mt[0]) for mt in meta)
    for k in (0, len(meta) // 2, len(meta) - 1):
        ctx.sample({"expr": str(meta[k][0])[:160], "c": meta[k][1][:200], "env": meta[k][2][0], "c_value": hex(meta[k][3].get(0, 0)),
                    "tlc_verdict": verdicts[k]})
    ctx.notes["verdicts"] = counts
    ctx.notes["unsupported"] = unsupported
    ctx.notes["stdout_bytes"] = stdout_total
    ctx.notes["lowered_before_translation"] = lowered[0]
    ctx.assumptions += ["Expr.tla/BV.tla is the reference (tied to miasm's own constant evaluation by C03)",
                        "an expression whose generated C does not compile (non-native operand widths of helper macros) is 'not accepted'",
                        "MEM_LOOKUP_* are stubbed with the environment's fixed memory function (the VM path is C24's)",
                        "gcc -O0 -fwrapv; division by zero is not evaluated (undefined in the reference)"]
    return ("expressions (random / rule-shaped at native widths, odd widths, and the bn_t path at 65..256 bits; one operator at a "
            "time at 8/16/32/64/128) translated by TranslatorC, compiled against op_semantics.c and bn.c of the working tree, run "
            "with boundary+random inputs; TLC judges every value against Expr.tla; stdout must stay empty")
