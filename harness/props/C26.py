"""C26 interval sets have exact set semantics."""
from .. import core, sm


class H(object):
    pass


def R(t, n=0, m=0):
    return {"t": t, "n": n, "m": m}


def expand(iv):
    """integer set denoted by the interval object (no assumption on its internal form)"""
    out = set()
    for a, b in iv.intervals:
        out.update(range(a, b + 1))
    return out


class Adapter(object):
    def new(self, acfg):
        from miasm.core.interval import interval
        h = H()
        h.A = interval()
        h.B = interval()
        return h

    def apply(self, h, o):
        from miasm.core.interval import interval
        op = o["op"]
        r = o.get("r", "A")
        me, other = (h.A, h.B) if r == "A" else (h.B, h.A)

        def setr(v):
            if r == "A":
                h.A = v
            else:
                h.B = v
        if op == "Load":
            setr(interval([tuple(p) for p in o["q"]]))
            return R("none")
        if op == "Union":
            setr(me + other)
            return R("none")
        if op == "UnionList":
            setr(me.union([tuple(p) for p in o["q"]]))
            return R("none")
        if op == "Inter":
            setr(me & other)
            return R("none")
        if op == "Diff":
            setr(me - other)
            return R("none")
        if op == "Contains":
            return R("bool", int(o["x"] in me))
        if op == "Includes":
            return R("bool", int(other in me))
        if op == "Length":
            return R("int", me.length)
        if op == "Hull":
            a, b = me.hull()
            return R("hull", -1, -1) if a is None else R("hull", a, b)
        if op == "Eq":
            assert (h.A == h.B) == (not (h.A != h.B))
            return R("bool", int(h.A == h.B))
        if op == "Empty":
            return R("bool", int(bool(me.empty)))
        raise core.MachineryError(op)

    def project(self, h):
        # the observers are part of the projection: length/hull/emptiness of both registers
        return {"A": expand(h.A), "B": expand(h.B), "lenA": h.A.length, "lenB": h.B.length,
                "eq": bool(h.A == h.B), "hullA": list(x if x is not None else -1 for x in h.A.hull())}


def gen_op(rng, h, acfg):
    U = acfg["U"]
    r = rng.choice("AB")
    c = rng.random()

    def lst():
        q = []
        for _ in range(rng.randrange(0, 5)):
            a = rng.randrange(0, U + 1)
            b = min(U, a + rng.choice([0, 0, 1, 2, 3, 5, 9])) if rng.random() < 0.85 else rng.randrange(0, U + 1)
            q.append([a, b])
        return q
    if c < 0.2:
        return {"op": "UnionList", "r": r, "q": lst()}
    if c < 0.5:
        return {"op": rng.choice(["Union", "Inter", "Diff"]), "r": r}
    if c < 0.65:
        return {"op": "Contains", "r": r, "x": rng.randrange(0, U + 1)}
    return {"op": rng.choice(["Includes", "Length", "Hull", "Eq", "Empty"]), "r": r}


def run(ctx):
    ad = Adapter()
    if ctx.quick:
        sm.gen_replay(ctx, "Interval", {"U": "3", "K": "2"}, 3, ad, invariants=("TypeOK",),
                      properties=("ObserversPure",))
    else:
        sm.gen_replay(ctx, "Interval", {"U": "4", "K": "3"}, 4, ad, invariants=("TypeOK",),
                      properties=("ObserversPure",), timeout=3000)
        sm.gen_replay(ctx, "Interval", {"U": "6", "K": "2"}, 3, ad, invariants=("TypeOK",), label="gen_u6", timeout=3000)
    ntr = 200 if ctx.quick else 2000
    traces = sm.record_traces(ad, {"U": 24}, gen_op, ntr, 30, ctx.rng)
    c = {"U": "24", "K": "0"}
    sm.trace_validate(ctx, "Interval", c, traces)

    def corrupt(ts):
        ev = ts[0][-1]
        ev["st"]["A"] = sorted(set(ev["st"]["A"]) ^ {3})
        return "flip membership of 3"
    sm.selftest_trace_binding(ctx, "Interval", c, traces, corrupt)
    return ("every pair of integer sets over the universe reachable by constructor lists (reversed/adjacent/nested "
            "bounds) and union/intersection/difference, every operation from it, replayed on miasm interval with a "
            "canonical-form check; random histories over 0..24 validated by TLC")
