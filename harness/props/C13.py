"""C13 symbolic memory is a little-endian byte store: SymbMem.tla bound to SymbolMngr / SymbolicExecutionEngine."""
from .. import core, sm

ADDR = 16
M = 1 << ADDR


class L(object):
    addrsize = ADDR


class H(object):
    pass


def ptr(b, o):
    import miasm.expression.expression as m
    if b == "INT":
        return m.ExprInt(o, ADDR)
    base = m.ExprId(b, ADDR)
    return base if o == 0 else base + m.ExprInt(o, ADDR)


def parse_ptr(p):
    """(base name, offset) of a pointer expression, by shape (the harness' own reading, not miasm's helper)"""
    if p.is_int():
        return "INT", int(p)
    if p.is_id():
        return p.name, 0
    if p.is_op("+") and len(p.args) == 2 and p.args[0].is_id() and p.args[1].is_int():
        return p.args[0].name, int(p.args[1])
    raise ValueError("pointer shape %s" % p)


def byte_terms(e):
    """little-endian byte terms of an expression made of opaque values, constants, original memory, slices, compositions"""
    if e.is_int():
        return ["c:%d" % ((int(e) >> (8 * k)) & 0xff) for k in range(e.size // 8)]
    if e.is_id():
        return ["v:%s:%d" % (e.name, k) for k in range(e.size // 8)]
    if e.is_mem():
        b, o = parse_ptr(e.ptr)
        return ["m:%s:%d" % (b, (o + k) % M) for k in range(e.size // 8)]
    if e.is_slice():
        if e.start % 8 or e.stop % 8:
            raise ValueError("unaligned slice %s" % e)
        return byte_terms(e.arg)[e.start // 8:e.stop // 8]
    if e.is_compose():
        out = []
        for a in e.args:
            out += byte_terms(a)
        return out
    raise ValueError("unexpected shape %s" % e)


def value_expr(v):
    import miasm.expression.expression as m
    if v["t"] == "v":
        return m.ExprId(v["n"], 8 * v["s"])
    if v["t"] == "c":
        return m.ExprInt(int.from_bytes(bytes(v["bytes"]), "little"), 8 * len(v["bytes"]))
    return m.ExprMem(ptr(v["b"], v["o"]), 8 * v["s"])


class Adapter(object):
    def new(self, acfg):
        from miasm.ir.symbexec import SymbolicExecutionEngine
        h = H()
        h.eng = SymbolicExecutionEngine(L())
        h.acfg = acfg
        return h

    def apply(self, h, o):
        try:
            return self._apply(h, o)
        except KeyError:
            return "EXC:KeyError"

    def _apply(self, h, o):
        import miasm.expression.expression as m
        from miasm.ir.symbexec import SymbolicExecutionEngine
        op = o["op"]
        sy = h.eng.symbols
        if op == "Write":
            v = value_expr(o["v"])
            sy.write(m.ExprMem(ptr(o["b"], o["o"]), v.size), v)
            return "ok"
        if op == "ExportImport":
            st = h.eng.get_state()
            fresh = SymbolicExecutionEngine(L())
            fresh.set_state(st)
            h.eng = fresh
            return "ok"
        mem = m.ExprMem(ptr(o["b"], o["o"]), 8 * o["n"])
        if op == "Read":
            r = sy.read(mem)
            if r.size != mem.size:
                raise AssertionError("read of %s returned %d bits" % (mem, r.size))
            r2 = h.eng.eval_expr(mem)          # the engine-level read must agree
            if byte_terms(r2) != byte_terms(r):
                raise AssertionError("engine read differs from store read: %s vs %s" % (r2, r))
            return "|".join(byte_terms(r))
        if op == "Delete":
            del sy[mem]
            return "ok"
        if op == "DeletePartial":
            sy.symbols_mem.delete_partial(mem)
            return "ok"
        if op == "Contains":
            return str(bool(mem in sy))
        raise core.MachineryError(op)

    def project(self, h):
        import miasm.expression.expression as m
        cells = {}
        for b in h.acfg["bases"]:
            for a in h.acfg["addr"]:
                r = h.eng.symbols.read(m.ExprMem(ptr(b, a), 8))
                t = byte_terms(r)
                if len(t) != 1:
                    raise AssertionError("8-bit read gave %r" % (t,))
                cells["%s:%d" % (b, a)] = t[0]
        return {"cells": cells}


def pools(quick):
    bases = ["INT", "B"] if quick else ["INT", "B", "C"]
    offs = [0, 1, 2, M - 2, M - 1] if quick else [0, 1, 2, 3, M - 3, M - 2, M - 1]
    sizes = [1, 2, 4]
    wv = [{"t": "v", "n": "V1", "s": 1}, {"t": "v", "n": "V2", "s": 2}, {"t": "v", "n": "V4", "s": 4},
          {"t": "c", "bytes": [17, 34]}, {"t": "c", "bytes": [51]}]
    for b in bases:
        for o in ([0, 1, M - 1] if quick else [0, 1, 2, M - 2, M - 1]):
            for s in (1, 2) if quick else (1, 2, 4):
                wv.append({"t": "m", "b": b, "o": o, "s": s})
    return bases, offs, sizes, wv


def consts(bases, offs, sizes, wv):
    return {"Bases": core.tla_set(core.tla_str(b) for b in bases), "Offs": core.tla_set(str(o) for o in offs), "M": str(M),
            "Sizes": core.tla_set(str(s) for s in sizes), "WVals": core.tla_set(core.tla_val(v) for v in wv)}


def addr_of(offs, sizes):
    return sorted({(o + i) % M for o in offs for i in range(max(sizes))})


def gen_op(rng, h, acfg):
    b = rng.choice(acfg["bases"])
    o = rng.choice(acfg["offs"])
    c = rng.random()
    if c < 0.4:
        return {"op": "Write", "b": b, "o": o, "v": rng.choice(acfg["wv"])}
    if c < 0.6:
        return {"op": "Read", "b": b, "o": o, "n": rng.choice(acfg["sizes"])}
    if c < 0.7:
        return {"op": "Delete", "b": b, "o": o, "n": rng.choice(acfg["sizes"])}
    if c < 0.8:
        return {"op": "DeletePartial", "b": b, "o": o, "n": rng.choice(acfg["sizes"])}
    if c < 0.9:
        return {"op": "Contains", "b": b, "o": o, "n": rng.choice(acfg["sizes"])}
    return {"op": "ExportImport"}


def run(ctx):
    ad = Adapter()
    bases, offs, sizes, wv = pools(True)
    acfg = {"bases": bases, "offs": offs, "sizes": sizes, "wv": wv, "addr": addr_of(offs, sizes)}
    inv = ("TypeOK",)
    props = ("WriteLocal", "ReadPure")
    sm.gen_replay(ctx, "SymbMem", consts(bases, offs, sizes, wv), 2 if ctx.quick else 3, ad, acfg=acfg, invariants=inv,
                  properties=props, timeout=3000)
    # memcpy-like patterns: adjacent regions holding copies of adjacent original memory, read back unaligned
    cb_, co_, cs_ = ["INT", "B"], [0, 1, 2, 3], [1, 2, 4]
    cw_ = [{"t": "m", "b": "B", "o": o, "s": s_} for o in (0, 1, 2, 3, 4) for s_ in (2, 4)] + [{"t": "v", "n": "V2", "s": 2}]
    cop = {"bases": cb_, "offs": co_, "sizes": cs_, "wv": cw_, "addr": addr_of(co_, cs_)}
    sm.gen_replay(ctx, "SymbMem", consts(cb_, co_, cs_, cw_), 3, ad, acfg=cop, label="copy", timeout=3000,
                  gops='{o \\in Ops : (o.op = "Write" /\\ o.b = "INT") \\/ (o.op = "Read" /\\ o.b = "INT")}')
    # longer mixes: simulation over the larger pools, then recorded histories validated by TLC
    bases, offs, sizes, wv = pools(False)
    big = {"bases": bases, "offs": offs, "sizes": sizes, "wv": wv, "addr": addr_of(offs, sizes)}
    cb = consts(bases, offs, sizes, wv)
    sm.gen_replay(ctx, "SymbMem", cb, 8, ad, acfg=big, label="sim", simulate="num=%d" % (300 if ctx.quick else 4000), sim_depth=9,
                  timeout=3000)
    traces = sm.record_traces(ad, big, gen_op, 150 if ctx.quick else 1500, 30, ctx.rng)
    sm.trace_validate(ctx, "SymbMem", cb, traces)

    def corrupt(ts):
        ev = ts[0][-1]
        k = sorted(ev["st"]["cells"])[0]
        ev["st"]["cells"][k] = "c:255"
        return "one cell replaced"
    sm.selftest_trace_binding(ctx, "SymbMem", cb, traces, corrupt)
    ctx.assumptions += ["address size 16 bits (offsets near 0 and near 2^16 exercise the wrap-around); byte-aligned accesses of 1/2/4 bytes",
                        "read results are decomposed into byte terms structurally (opaque values, constants, original memory, slices, compositions)"]
    return ("histories of writes (opaque values, constants, copies of original memory incl. writing a cell's own original back), "
            "reads, full and partial deletions, membership tests and export/import round-trips over 2-3 bases and offsets around 0 and "
            "2^16: every (state, operation) to depth 2-3 plus simulated and recorded longer histories; each read and every cell is "
            "compared byte term by byte term with SymbMem.tla")
