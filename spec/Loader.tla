-------------------------------- MODULE Loader --------------------------------
(* Loading a PE / ELF image into emulator memory (property C44).                   *)
(* An image is a list of sections (PE) or loadable segments (ELF):                 *)
(*   [va, vsize, raw (file bytes), w (write permission requested)]                 *)
(* and a list of import slots.  After loading, every byte va + k (k < vsize) is    *)
(* mapped and holds raw[k + 1] for k < Len(raw), 0 beyond (zero padding); the page *)
(* holding the section is writable iff the header asks for it; every import slot   *)
(* holds the address of a stub that maps back to the slot's (library, function).   *)
EXTENDS Integers, Sequences, TLC

ExpectedByte(s, k) == IF k < Len(s.raw) THEN s.raw[k + 1] ELSE 0
(* observed: s.mapped (the whole extent), s.probes: sequence of [k, b] (memory byte at va + k), s.gotw (page writable) *)
SectionDiff(s) ==
  IF ~s.mapped THEN "not-mapped-on-its-whole-virtual-size"
  ELSE IF \E i \in 1..Len(s.probes) : s.probes[i].b # ExpectedByte(s, s.probes[i].k)
       THEN LET i == CHOOSE i \in 1..Len(s.probes) : s.probes[i].b # ExpectedByte(s, s.probes[i].k) IN
            "content-at-offset-" \o ToString(s.probes[i].k) \o ":" \o ToString(s.probes[i].b) \o "/" \o ToString(ExpectedByte(s, s.probes[i].k))
  ELSE IF s.gotw # s.w THEN "write-permission"
  ELSE "ok"
(* import slots: [lib, fn, isstub, stublib, stubfn] *)
SlotDiff(x) == IF ~x.isstub THEN "slot-does-not-hold-a-stub-address"
               ELSE IF x.stublib # x.lib \/ x.stubfn # x.fn THEN "stub-maps-back-to-" \o x.stublib \o "!" \o x.stubfn
               ELSE "ok"
RECURSIVE FirstSection(_, _, _)
FirstSection(it, i, permonly) ==
  IF i > Len(it.secs) THEN "ok"
  ELSE LET d == SectionDiff(it.secs[i]) IN
       IF d # "ok" /\ (d = "write-permission") = permonly THEN ToString(i) \o ":" \o d ELSE FirstSection(it, i + 1, permonly)
RECURSIVE FirstSlot(_, _)
FirstSlot(it, i) == IF i > Len(it.slots) THEN "ok"
                    ELSE IF SlotDiff(it.slots[i]) # "ok" THEN it.slots[i].lib \o "!" \o it.slots[i].fn \o ":" \o SlotDiff(it.slots[i])
                    ELSE FirstSlot(it, i + 1)
LoadVerdict(it) == IF it.raised # "" THEN "bad:raised:" \o it.raised
                   ELSE IF FirstSection(it, 1, FALSE) # "ok" THEN "bad:section:" \o FirstSection(it, 1, FALSE)
                   ELSE IF FirstSlot(it, 1) # "ok" THEN "bad:import:" \o FirstSlot(it, 1)
                   ELSE IF FirstSection(it, 1, TRUE) # "ok" THEN "perm:section:" \o FirstSection(it, 1, TRUE)
                   ELSE "ok"
=============================================================================
