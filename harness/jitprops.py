"""The five jitter checks (C20-C23, C49): scenario families over the shared driver."""
from . import core, overlay
from . import jitgen as G

PY_FAULT = "python-backend-memory-faults"
PY_FAULT_TEXT = ("python backend: emulated accesses ignore page permissions and an access to unmapped memory raises a Python "
                 "exception out of run() instead of stopping on the instruction with EXCEPT_ACCESS_VIOL")


def setup(ctx):
    overlay.activate(ctx, ("VmMngr", "JitCore_x86", "Jitgcc"))


def report(ctx, results, pid, what):
    counts = {}
    for v, job, obs in results:
        key = v.split(":")[0] if not v.startswith("bad") else "bad"
        counts[key] = counts.get(key, 0) + 1
        if not v.startswith("bad"):
            continue
        item, script, backend, cfg = job
        if backend == "python" and G.needs_fault(item["prog"], item["pages"], item["stackok"]):
            if PY_FAULT in ctx.findings:
                ctx.known(PY_FAULT, PY_FAULT_TEXT)
                continue
        d = G.describe(job)
        d["verdict"] = v
        d["observed"] = obs[-1] if obs else None
        ctx.violation(what, d)
    ctx.traces += len(results)
    ctx.evaluations += sum(len(o) for _, _, o in results)
    for v, job, obs in results[:1] + results[len(results) // 2:len(results) // 2 + 1]:
        ctx.sample({"backend": job[2], "config": job[3], "program": job[0]["prog"][:8], "script": job[1], "tlc_verdict": v})
    for v, job, obs in results:
        ctx.distinct.add((str(job[0]["prog"]), str(job[1]), job[2], str(job[3])))
    ctx.notes.setdefault("verdicts", {}).update({what: counts})


CONFIGS = [{"maxline": 50}, {"maxline": 1}, {"maxline": 2}, {"maxline": 3}, {"maxline": 50, "maxexec": 1}, {"maxline": 2, "maxexec": 2},
           {"maxline": 2, "cache_max": 3}, {"maxline": 1, "cache_max": 4}]
BACKENDS = ["python", "gcc"]
COMMON_ASSUMPTIONS = ["JitMachine.tla (one instruction at a time, no blocks, no cache) is the reference; programs are written in an abstract "
                      "instruction set with one fixed x86-32 encoding per instruction",
                      "the LLVM backend cannot run here (llvmlite is not installed): python and gcc backends only",
                      "extensions and the C runtime are rebuilt from the working tree; fresh gcc block cache per worker"]


def c20(ctx):
    setup(ctx)
    rng = ctx.rng
    n = 60 if ctx.quick else 600
    jobs = []
    for _ in range(n):
        ps = rng.choice(["rw", "rw+rw", "rw+rw", "ro", "none", "rw+ro", "ro+rw"])
        item = G.make_item(rng, G.gen_prog(rng, patch=rng.random() < 0.3), ps, stackok=rng.random() < 0.9)
        script = [{"c": "run", "s": 0}]
        if rng.random() < 0.5:
            # a breakpoint, preferably on the loop instruction (single-instruction loops included)
            loops = [i for i, x in enumerate(item["prog"]) if x["k"] in ("LOOP", "JNZ")]
            s = rng.choice(loops) if loops and rng.random() < 0.6 else rng.randrange(0, len(item["prog"]))
            script = [{"c": "addbp", "s": s, "stops": rng.random() < 0.3}] + script
        if rng.random() < 0.5 and ps == "rw+rw" and item["stackok"]:
            # memory breakpoints (read / write) on the data window; the run is resumed after each stop
            script = [G.gen_mbp(rng, item["prog"]) for _ in range(rng.randrange(1, 3))] + script + [{"c": "cont"}, {"c": "cont"}, {"c": "cont"}]
        for be in BACKENDS:
            jobs.append((item, script, be, rng.choice([{"maxline": 50}, {"maxline": 50}, {"maxline": 2}])))
    for prog, script, ps, stackok in G.templates(rng):
        item = G.make_item(rng, prog, ps, stackok=stackok)
        for be in BACKENDS:
            for cfg in ({"maxline": 50}, {"maxline": 2}, {"maxline": 1}):
                jobs.append((item, script, be, cfg))
    report(ctx, G.judge_jobs(ctx, jobs, "c20"), "C20", "backend-differs-from-reference")
    ctx.assumptions += COMMON_ASSUMPTIONS
    return ("random abstract-ISA programs (hash-chain / push log / loop / stores, 4-byte stores straddling pages, loads, self-patching) "
            "under page layouts with read-only and missing pages and with breakpoints, run on the python and the gcc backend; final "
            "registers, memory window, stack log, fault flag, stop reason, pc and breakpoint hit sequence of EACH backend are compared "
            "by TLC with the reference CPU (hence with each other)")


def c21(ctx):
    setup(ctx)
    rng = ctx.rng
    n = 30 if ctx.quick else 300
    jobs = []
    for _ in range(n):
        item = G.make_item(rng, G.gen_prog(rng, patch=rng.random() < 0.3), rng.choice(["rw", "rw+rw", "rw", "rw+ro"]))
        for cfg in CONFIGS:
            for be in BACKENDS:
                if be == "python" and G.needs_fault(item["prog"], item["pages"], item["stackok"]):
                    continue        # the python backend's fault behaviour is C20 / C49's subject (known finding)
                # cold run, then a second run on the warm translation cache from the same initial state
                jobs.append((item, [{"c": "run", "s": 0}, {"c": "reset"}, {"c": "run", "s": 0}], be, cfg))
    for prog, script, ps, stackok in G.templates(rng):
        item = G.make_item(rng, prog, ps, stackok=stackok)
        for cfg in CONFIGS:
            for be in BACKENDS:
                # cold, then again on the warm cache (watchpoints stay armed across the reset)
                jobs.append((item, script + [{"c": "reset"}] + [c for c in script if c["c"] != "addmbp"], be, cfg))
    report(ctx, G.judge_jobs(ctx, jobs, "c21"), "C21", "result-depends-on-partitioning-or-caching")
    ctx.assumptions += COMMON_ASSUMPTIONS + ["the executed-instruction sequence is observed through the hash chain and the push log, "
                                             "not per address"]
    return ("each program is run under jit_maxline 1/2/3/50, max_exec_per_call 0/1/2, a 3- or 4-entry block cache (eviction while "
            "running), cold and again on the warm cache, on both backends: every configuration must give the reference CPU's final "
            "state, hash chain and push log")


def c22(ctx):
    setup(ctx)
    rng = ctx.rng
    n = 40 if ctx.quick else 400
    jobs = []
    for _ in range(n):
        prog = G.gen_prog(rng, patch=True, mem=rng.random() < 0.5)
        if not any(x["k"] == "PATCH" for x in prog) and rng.random() < 0.7:
            prog = G.gen_prog(rng, patch=True, mem=False)
        tmpl = rng.random()
        if tmpl < 0.2:
            # a string store (several IR blocks) patching an instruction that runs right after it, with no other memory
            # access in between: same block, or the next block behind a jump
            R = lambda: {"k": "RT", "i": rng.randrange(1, 120)}
            k = rng.choice([1, 2])
            prog = [R(), R(), {"k": "PATCHS", "s": 2 + k}] + ([R()] if k == 2 else []) + [R(), R()]
            if rng.random() < 0.4:
                prog = [R(), {"k": "PATCHS", "s": 3}, {"k": "JMP", "t": 3}, R(), R()]
        item = G.make_item(rng, prog, "rw")
        targets = [i for i, x in enumerate(prog) if x["k"] in ("RT", "PU")]
        script = [{"c": "run", "s": 0}]
        if tmpl > 0.8 and prog[-1]["k"] in ("RT", "PU"):
            # the translation pool is rebuilt (add_breakpoint), then only the LAST byte of the translated range is written
            script += [{"c": "reset"}, {"c": "addbp", "s": rng.randrange(0, len(prog)), "stops": False},
                       {"c": "patch", "s": len(prog) - 1, "v": rng.randrange(1, 120)}, {"c": "run", "s": 0}]
        if targets:
            # the host overwrites an already translated instruction between two runs
            script += [{"c": "reset"}, {"c": "patch", "s": rng.choice(targets), "v": rng.randrange(1, 120)}, {"c": "run", "s": 0}]
            if rng.random() < 0.5:
                script += [{"c": "reset"}, {"c": "patch", "s": rng.choice(targets), "v": rng.randrange(1, 120)},
                           {"c": "addbp", "s": rng.randrange(0, len(prog)), "stops": False}, {"c": "run", "s": 0}]
        for cfg in rng.sample(CONFIGS, 3) + [{"maxline": 50}]:
            for be in BACKENDS:
                if be == "python" and G.needs_fault(item["prog"], item["pages"], item["stackok"]):
                    continue        # the python backend's fault behaviour is C20 / C49's subject (known finding)
                jobs.append((item, script, be, cfg))
    report(ctx, G.judge_jobs(ctx, jobs, "c22"), "C22", "stale-translation-executed")
    ctx.assumptions += COMMON_ASSUMPTIONS
    return ("programs whose stores overwrite the immediate of an earlier, a later-in-the-same-block or another block's instruction, and "
            "host writes (vm.set_mem) into translated instructions between runs, under several block lengths on both backends: the "
            "next execution must use the new instruction (reference CPU fetches current bytes)")


def c23(ctx):
    setup(ctx)
    rng = ctx.rng
    n = 40 if ctx.quick else 400
    jobs = []
    for _ in range(n):
        prog = G.gen_prog(rng, mem=rng.random() < 0.3)
        item = G.make_item(rng, prog, "rw")
        L = len(prog)
        script = []
        # breakpoints before the first run (block starts, mid-block, never reached)
        for _ in range(rng.randrange(0, 3)):
            script.append({"c": "addbp", "s": rng.randrange(0, L), "stops": rng.random() < 0.4})
        script.append({"c": "run", "s": 0})
        k = rng.random()
        if k < 0.5:
            # resume after a stopping breakpoint; then add one inside an already translated block and run again
            script += [{"c": "cont"}, {"c": "reset"}, {"c": "addbp", "s": rng.randrange(0, L), "stops": rng.random() < 0.5},
                       {"c": "run", "s": 0}, {"c": "cont"}]
        else:
            s = rng.randrange(0, L)
            script += [{"c": "reset"}, {"c": "addbp", "s": s, "stops": False}, {"c": "run", "s": 0},
                       {"c": "reset"}, {"c": "rmbp", "s": s}, {"c": "addbp", "s": rng.randrange(0, L), "stops": False},
                       {"c": "run", "s": 0}]
        # one breakpoint per slot in the model: drop duplicates of a slot already holding one
        seen, clean = set(), []
        for c in script:
            if c["c"] == "addbp":
                if c["s"] in seen:
                    continue
                seen.add(c["s"])
            if c["c"] == "rmbp":
                seen.discard(c["s"])
            clean.append(c)
        for cfg in rng.sample(CONFIGS, 2) + [{"maxline": 50}]:
            for be in BACKENDS:
                if be == "python" and G.needs_fault(item["prog"], item["pages"], item["stackok"]):
                    continue        # the python backend's fault behaviour is C20 / C49's subject (known finding)
                jobs.append((item, clean, be, cfg))
    report(ctx, G.judge_jobs(ctx, jobs, "c23"), "C23", "breakpoint-hits-differ")
    ctx.assumptions += COMMON_ASSUMPTIONS + ["one callback per address; add_breakpoint / remove_breakpoints_by_address"]
    return ("breakpoints on block starts, mid-block instructions, loop heads and never-reached slots, added before translation or "
            "after a first run (inside already translated blocks), removed between runs, stopping or not, with resumption after a stop: "
            "the hit sequence and every stop must equal the reference CPU's (pc reaches the slot at an instruction boundary)")


def c49(ctx):
    setup(ctx)
    rng = ctx.rng
    n = 60 if ctx.quick else 600
    jobs = []
    for _ in range(n):
        ps = rng.choice(["ro", "none", "rw+ro", "ro+rw", "rw", "wo", "rw+wo"])
        stackok = rng.random() < 0.8
        prog = G.gen_prog(rng, mem=True)
        if rng.random() < 0.3:
            # an instruction that loads AND stores, on a page where only one of the two is allowed
            cand = [i for i, x in enumerate(prog) if x["k"] in ("RT", "PU", "ST", "ST4", "LD")]
            if cand:
                prog[rng.choice(cand)] = rng.choice([{"k": "PUM", "a": G.P1}, {"k": "PUM", "a": G.P0 + 0xffe}, {"k": "INCM", "a": G.P1 + 1},
                                                     {"k": "INCM", "a": G.P0 + 1}])
                ps = rng.choice(["wo", "rw+wo", "ro", "rw", "rw+ro"])
                stackok = True
        if not G.needs_fault(prog, G.PAGESETS[ps], stackok):
            # (never over a DEC / branch: the loop structure guarantees termination)
            cand = [i for i, x in enumerate(prog) if x["k"] in ("RT", "PU", "ST", "ST4", "LD")]
            if not cand:
                continue
            prog[rng.choice(cand)] = rng.choice([{"k": "ST", "a": G.P1 + 1, "v": 7}, {"k": "ST4", "a": G.P0 + 0xffe, "v": 9},
                                                           {"k": "LD", "a": G.P1 + 2}])
            ps = rng.choice(["rw", "rw+ro", "none"])
        item = G.make_item(rng, prog, ps, stackok=stackok)
        # stop on the fault, map / unprotect, clear, continue (several faults in a row are repaired by the first repair)
        script = [{"c": "run", "s": 0}, {"c": "repair"}, {"c": "cont"}]
        for cfg in rng.sample(CONFIGS[:6], 2) + [{"maxline": 50}]:
            for be in BACKENDS:
                jobs.append((item, script, be, cfg))
    report(ctx, G.judge_jobs(ctx, jobs, "c49"), "C49", "fault-not-precise")
    ctx.assumptions += COMMON_ASSUMPTIONS + ["an EXCEPT_ACCESS_VIOL handler that stops the run is installed (without one the jitter raises)"]
    return ("stores, 4-byte stores straddling a page end, loads and pushes on read-only / missing pages at the first, middle or last "
            "position of blocks of several lengths: after the fault pc, registers, memory and stack must be those before the "
            "instruction with the fault reported; after mapping / unprotecting and clearing, continuing must end as the reference CPU")
