------------------------------- MODULE SandboxFS -------------------------------
(* The sandboxed file system of the emulated environments (property C46).          *)
(*                                                                                 *)
(* The HOST is modelled: a tree of directories, files and symbolic links, and the  *)
(* kernel's path walk over it (component by component, ".." is the parent of the   *)
(* directory REACHED - not of the text -, links are followed wherever they occur   *)
(* but - for lstat-like accesses - in the last position, absolute link targets     *)
(* restart from the host root, at most Fuel links per walk).                       *)
(* A guest access is safe when the host path the emulated environment returned     *)
(* (FileSystem.resolve_path, unix_to_sbpath, windows_to_sbpath, or the file really *)
(* opened by FileSystem.open_) LANDS, after that walk, inside the sandbox base     *)
(* directory or on a configured passthrough entry.                                 *)
(*                                                                                 *)
(* Positions are absolute host paths: sequences of names from the host root.  The  *)
(* harness abbreviates its scratch directory to the single name "T"; everything    *)
(* the model knows about lies under T (nodes), the rest of the host is walked      *)
(* textually (and is outside the sandbox anyway).                                  *)
EXTENDS Integers, Sequences, FiniteSets, TLC

Fuel == 40
IsPrefix(p, q) == Len(p) <= Len(q) /\ SubSeq(q, 1, Len(p)) = p
Front(p) == SubSeq(p, 1, Len(p) - 1)
RECURSIVE Join(_)
Join(p) == IF p = <<>> THEN "" ELSE "/" \o Head(p) \o Join(Tail(p))

(* fs.nodes: sequence of [p |-> position, k |-> "dir" | "file" | "link", abs |-> BOOLEAN, tgt |-> sequence of names] *)
NodeAt(fs, p) == {i \in 1..Len(fs.nodes) : fs.nodes[i].p = p}
IsLink(fs, p) == \E i \in NodeAt(fs, p) : fs.nodes[i].k = "link"
LinkOf(fs, p) == fs.nodes[CHOOSE i \in NodeAt(fs, p) : fs.nodes[i].k = "link"]

RECURSIVE Walk(_, _, _, _, _)
Walk(fs, pos, rem, fuel, nofollow) ==
  IF rem = <<>> THEN [r |-> "at", p |-> pos]
  ELSE LET c == Head(rem)  r == Tail(rem) IN
       IF c = "." \/ c = "" THEN Walk(fs, pos, r, fuel, nofollow)
       ELSE IF c = ".." THEN Walk(fs, IF pos = <<>> THEN pos ELSE Front(pos), r, fuel, nofollow)
       ELSE LET q == Append(pos, c) IN
            IF IsLink(fs, q) /\ ~(r = <<>> /\ nofollow)
            THEN IF fuel = 0 THEN [r |-> "loop", p |-> q]
                 ELSE LET l == LinkOf(fs, q) IN Walk(fs, IF l.abs THEN <<>> ELSE pos, l.tgt \o r, fuel - 1, nofollow)
            ELSE Walk(fs, q, r, fuel, nofollow)

(* passthrough entries: [kind |-> "exact" | "prefix", p |-> host position] *)
PassOK(fs, p) == \E i \in 1..Len(fs.pass) : LET e == fs.pass[i] IN
                   (e.kind = "exact" /\ p = e.p) \/ (e.kind = "prefix" /\ IsPrefix(e.p, p))
Inside(fs, p) == IsPrefix(fs.base, p)

(* one access: q = [abs, comps (the returned host path), nofollow, refused, real (what the host's own realpath says, "" when  *)
(* not asked)]                                                                                                                *)
Landing(fs, q) == Walk(fs, IF q.abs THEN <<>> ELSE fs.cwd, q.comps, Fuel, q.nofollow)
(* the same host without its symbolic links: where the returned path lands as a text *)
NoLinks(fs) == [fs EXCEPT !.nodes = SelectSeq(fs.nodes, LAMBDA n : n.k # "link")]
Judge(fs, q) ==
  IF q.refused THEN "ok"
  ELSE LET w == Landing(fs, q) IN
       IF w.r = "loop" THEN "ok"
       ELSE IF q.real # "" /\ Join(w.p) # q.real THEN "model"          \* the model of the host disagrees with the host
       ELSE IF Inside(fs, w.p) \/ PassOK(fs, w.p) THEN "ok"
       (* recorded deviation of the pure string helpers (unix_to_sbpath, windows_to_sbpath never look at the host): the path  *)
       (* is inside as a text and leaves only because the host follows a link that lies in the sandbox                         *)
       ELSE IF q.textonly /\ Inside(fs, Landing(NoLinks(fs), q).p) THEN "link"
       ELSE "bad"
(* an item is one host tree with a batch of accesses *)
Which(it, v) == {i \in 1..Len(it.qs) : Judge(it, it.qs[i]) = v}
Verdict(it) == IF Which(it, "model") # {} THEN "model:" \o ToString(Which(it, "model"))
               ELSE IF Which(it, "bad") # {} THEN "bad:" \o ToString(Which(it, "bad")) \o ":" \o ToString(Which(it, "link"))
               ELSE IF Which(it, "link") # {} THEN "link:" \o ToString(Which(it, "link"))
               ELSE "ok"
=============================================================================
