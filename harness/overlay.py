"""Scratch copy of /repo/miasm with C extensions rebuilt from the current working tree.

The prebuilt, git-ignored .so files inside /repo are never trusted: every check that touches C
code builds the extensions it needs here (plain gcc, in parallel) and puts the overlay first on
sys.path before miasm is imported."""
import os
import subprocess
import sys
import sysconfig
from concurrent.futures import ThreadPoolExecutor

from . import core

J = "miasm/jitter/"
EXT = {
    "VmMngr": ("miasm/jitter/VmMngr", [J + "vm_mngr.c", J + "vm_mngr_py.c", J + "bn.c"]),
    "Jitgcc": ("miasm/jitter/Jitgcc", [J + "Jitgcc.c", J + "bn.c"]),
}
for _a in ("x86", "arm", "aarch64", "msp430", "mips32", "ppc32", "m68k"):
    EXT["JitCore_" + _a] = ("miasm/jitter/arch/JitCore_" + _a,
                            [J + "JitCore.c", J + "vm_mngr.c", J + "vm_mngr_py.c", J + "op_semantics.c",
                             J + "bn.c", J + "arch/JitCore_%s.c" % _a])
EXT["JitCore_mep"] = ("miasm/jitter/arch/JitCore_mep",
                      [J + "JitCore.c", J + "vm_mngr.c", J + "vm_mngr_py.c", J + "bn.c", J + "arch/JitCore_mep.c"])


def build(ctx, which=("VmMngr",)):
    """Returns the overlay directory (to put on sys.path / PYTHONPATH)."""
    root = ctx.sub("overlay")
    r = subprocess.run(["rsync", "-a", "--delete", "--exclude", "*.so", "--exclude", "__pycache__",
                        os.path.join(core.REPO, "miasm"), root], capture_output=True, text=True)
    if r.returncode != 0:
        raise core.MachineryError("rsync overlay failed: " + r.stderr[-500:])
    suffix = sysconfig.get_config_var("EXT_SUFFIX")
    inc = sysconfig.get_paths()["include"]
    objdir = ctx.sub("overlay_obj")
    # compile each distinct (source, -D set) once
    sources = sorted({s for w in which for s in EXT[w][1]})

    def cc(src):
        obj = os.path.join(objdir, src.replace("/", "_") + ".o")
        cmd = ["gcc", "-c", "-fPIC", "-O2", "-fwrapv", "-DNDEBUG", "-w", "-I", inc, "-I", os.path.join(root, "miasm/jitter"),
               os.path.join(root, src), "-o", obj]
        p = subprocess.run(cmd, capture_output=True, text=True)
        if p.returncode != 0:
            # a tree that does not compile is reported as a machinery failure (exit 2)
            raise core.MachineryError("compiling %s failed:\n%s" % (src, p.stderr[-1500:]))
        return src, obj
    with ThreadPoolExecutor(core.NCPU) as ex:
        objs = dict(ex.map(cc, sources))

    def link(w):
        out = os.path.join(root, EXT[w][0] + suffix)
        cmd = ["gcc", "-shared"] + [objs[s] for s in EXT[w][1]] + ["-o", out]
        p = subprocess.run(cmd, capture_output=True, text=True)
        if p.returncode != 0:
            raise core.MachineryError("linking %s failed:\n%s" % (w, p.stderr[-1500:]))
    with ThreadPoolExecutor(core.NCPU) as ex:
        list(ex.map(link, which))
    return root


def activate(ctx, which=("VmMngr",)):
    if "miasm" in sys.modules:
        raise core.MachineryError("miasm imported before the overlay was activated")
    root = build(ctx, which)
    sys.path.insert(0, root)
    # the gcc jitter caches compiled blocks under $TMPDIR/miasm_cache keyed by offset+bytes only:
    # a fresh TMPDIR per run so that a stale cache cannot hide a change in the code generator
    tmp = ctx.sub("tmp")
    os.environ["TMPDIR"] = tmp
    import tempfile
    tempfile.tempdir = tmp
    import miasm
    if not os.path.abspath(miasm.__file__).startswith(root):
        raise core.MachineryError("overlay not in effect: " + miasm.__file__)
    return root
