------------------------------- MODULE Interval -------------------------------
(* miasm.core.interval.interval (property C26): finite sets of integers kept as   *)
(* canonical lists of closed intervals.  Two registers hold interval sets; the    *)
(* abstract value of a register is simply the set of integers it denotes.         *)
EXTENDS Integers, Sequences, FiniteSets, TLC

CONSTANTS U,        \* upper bound of the integer universe 0..U
          K         \* maximal number of bounds in a constructor list

VARIABLES A, B, loaded, ret
vars == <<A, B, loaded, ret>>

Univ == 0..U
Pairs == Univ \X Univ                    \* includes reversed bounds (denote nothing)
Lists == UNION {[1..n -> Pairs] : n \in 0..K}
SetOf(q) == UNION {q[i][1]..q[i][2] : i \in 1..Len(q)}

R(t, n, m) == [t |-> t, n |-> n, m |-> m]
None == R("none", 0, 0)
Bool(b) == IF b THEN 1 ELSE 0
Init == A = {} /\ B = {} /\ loaded = {} /\ ret = None

Reg(r) == IF r = "A" THEN A ELSE B
Other(r) == IF r = "A" THEN B ELSE A
Assign(r, v) == IF r = "A" THEN A' = v /\ B' = B ELSE B' = v /\ A' = A

Load(r, q) == /\ r \notin loaded /\ loaded' = loaded \cup {r}
              /\ Assign(r, SetOf(q)) /\ ret' = None
Union(r) == Assign(r, Reg(r) \cup Other(r)) /\ ret' = None /\ UNCHANGED loaded
Inter(r) == Assign(r, Reg(r) \cap Other(r)) /\ ret' = None /\ UNCHANGED loaded
Diff(r)  == Assign(r, Reg(r) \ Other(r)) /\ ret' = None /\ UNCHANGED loaded
UnionList(r, q) == Assign(r, Reg(r) \cup SetOf(q)) /\ ret' = None /\ UNCHANGED loaded

Obs(v) == ret' = v /\ UNCHANGED <<A, B, loaded>>
Contains(r, x) == Obs(R("bool", Bool(x \in Reg(r)), 0))
Includes(r) == Obs(R("bool", Bool(Other(r) \subseteq Reg(r)), 0))      \* other in r
Length(r) == Obs(R("int", Cardinality(Reg(r)), 0))
Min(S) == CHOOSE x \in S : \A y \in S : x <= y
Max(S) == CHOOSE x \in S : \A y \in S : x >= y
Hull(r) == Obs(IF Reg(r) = {} THEN R("hull", -1, -1) ELSE R("hull", Min(Reg(r)), Max(Reg(r))))
Eq == Obs(R("bool", Bool(A = B), 0))
Empty(r) == Obs(R("bool", Bool(Reg(r) = {}), 0))

Do(o) == CASE o.op = "Load" -> Load(o.r, o.q)
           [] o.op = "Union" -> Union(o.r)
           [] o.op = "Inter" -> Inter(o.r)
           [] o.op = "Diff" -> Diff(o.r)
           [] o.op = "UnionList" -> UnionList(o.r, o.q)
           [] o.op = "Contains" -> Contains(o.r, o.x)
           [] o.op = "Includes" -> Includes(o.r)
           [] o.op = "Length" -> Length(o.r)
           [] o.op = "Hull" -> Hull(o.r)
           [] o.op = "Eq" -> Eq
           [] o.op = "Empty" -> Empty(o.r)

Regs == {"A", "B"}
Ops == [op : {"Load"}, r : Regs, q : Lists]
       \cup [op : {"Union", "Inter", "Diff", "Includes", "Length", "Hull", "Empty"}, r : Regs]
       \cup [op : {"Contains"}, r : Regs, x : Univ] \cup [op : {"Eq"}]
Next == \E o \in Ops : Do(o)
Spec == Init /\ [][Next]_vars

(* design-level sanity: the algebra is a set algebra (holds by construction; TLC
   evaluates it so that a slip in the transcription above is noticed) *)
TypeOK == A \subseteq Univ /\ B \subseteq Univ
ObserversPure == [][ret'.t # "none" => (A' = A /\ B' = B)]_vars

HullOf(S) == IF S = {} THEN <<-1, -1>> ELSE <<Min(S), Max(S)>>
Proj == [A |-> A, B |-> B, lenA |-> Cardinality(A), lenB |-> Cardinality(B), eq |-> (A = B), hullA |-> HullOf(A)]
AbsView == <<A, B, loaded>>
ToSet(q) == {q[i] : i \in 1..Len(q)}
Matches(j) == /\ A = ToSet(j.A) /\ B = ToSet(j.B) /\ Cardinality(A) = j.lenA /\ Cardinality(B) = j.lenB
              /\ (A = B) = j.eq /\ HullOf(A) = j.hullA
=============================================================================
