"""C07 Python-source translation evaluates to the expression's value; expression-construction source rebuilds
the identical expression (identity action of the hash-consing machine)."""
import signal

from .. import core, transcheck
from .. import exprjson as X


class Slow(Exception):
    pass


def _alarm(signum, frame):
    raise Slow()


def make_eval():
    from miasm.ir.translators.python import TranslatorPython

    def translate_eval(e, sizes, envs):
        tr = TranslatorPython()
        src = tr.from_expr(e)
        code = compile(src, "<translated>", "eval")
        out = []
        for env in envs:
            seed = env["seed"]

            def memory(addr, size, seed=seed):
                return X.mem_read(addr, size * 8, seed, "little")
            g = {"memory": memory, "__builtins__": {}}
            g.update(env["ids"])
            signal.signal(signal.SIGALRM, _alarm)
            signal.alarm(10)
            try:
                v = eval(code, g)
            except ZeroDivisionError:
                v = None          # the reference is undefined there as well (checked by TLC: 'undef' imposes nothing)
            except Slow:
                raise RuntimeError("evaluation of the emitted source did not finish in 10 s: %s" % src[:120])
            finally:
                signal.alarm(0)
            if v is not None and not isinstance(v, int):
                raise RuntimeError("emitted source evaluated to %s, not an integer: %s" % (type(v).__name__, src[:120]))
            if v is not None and (v < 0 or v >> e.size):
                raise RuntimeError("emitted source evaluated outside 0..2^%d-1: %s" % (e.size, src[:120]))
            out.append(v)
        return out
    return translate_eval


def check_construction(ctx, exprs):
    """TranslatorMiasm: eval(source) must be the identical (interned) object"""
    import miasm.expression.expression as m
    from miasm.ir.translators.miasm_ir import TranslatorMiasm
    ns = {k: getattr(m, k) for k in ("ExprId", "ExprInt", "ExprCond", "ExprSlice", "ExprOp", "ExprCompose", "ExprMem",
                                     "ExprAssign", "ExprLoc", "LocKey")}
    n = 0
    for e in exprs:
        try:
            src = TranslatorMiasm().from_expr(e)
            r = eval(src, dict(ns))
        except NotImplementedError:
            continue
        except Exception as ex:
            ctx.violation("construction-source-raised", {"expr": str(e), "raised": type(ex).__name__ + ":" + str(ex)[:200]})
            continue
        n += 1
        if r is not e:
            ctx.violation("construction-source-not-identical", {"expr": repr(e)[:400], "source": src[:400], "rebuilt": repr(r)[:400],
                                                                 "equal": bool(r == e)})
    return n


def run(ctx):
    q = ctx.quick
    import miasm.expression.expression as m
    small, exprs = transcheck.corpus(ctx, 1200 if q else 12000, 300 if q else 3000, (1, 2) if q else (1, 2, 3), ptr=32)
    if q:
        small = ctx.rng.sample(small, min(len(small), 3000))
    transcheck.run_translator(ctx, "C07", "python", make_eval(), small, exprs, nenv=5)
    # construction source: the same corpus plus names / integers that stress quoting and widths
    extra = []
    for nm in ["a", "a b", "it's", 'say "x"', "back\\slash", "new\nline", "tab\t", "é", "", "0", "ExprId", "a'b\"c"]:
        for w in (1, 8, 32, 128):
            i = m.ExprId(nm, w)
            extra += [i, i + m.ExprInt(1, w), m.ExprCond(i, i, m.ExprInt(0, w))]
            if w % 8 == 0:
                extra.append(m.ExprMem(m.ExprId(nm, 32), w))
    for w in (1, 2, 7, 8, 31, 32, 33, 63, 64, 65, 127, 128, 256):
        for v in (0, 1, (1 << w) - 1, 1 << (w - 1), (1 << w) // 3):
            extra.append(m.ExprInt(v, w))
    n = check_construction(ctx, small + exprs + extra)
    ctx.traces += n
    ctx.notes["construction_sources_rebuilt"] = n
    ctx.assumptions += ["Expr.tla/BV.tla is the reference; memory() reads the fixed address function little-endian",
                        "expressions with locations are outside the construction-source claim (the property excludes them)"]
    return ("expressions (enumerated small trees under all valuations; random and rule-shaped trees, widths 1..128): the Python "
            "source emitted by TranslatorPython is evaluated with integer identifiers and judged by TLC against Expr.tla; "
            "the construction source emitted by TranslatorMiasm is evaluated and must be the identical interned object")
