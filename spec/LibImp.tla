-------------------------------- MODULE LibImp --------------------------------
(* miasm.jitter.loader.utils.libimp (property C45): stub addresses handed out to  *)
(* imported functions.  Libraries get bases Base, Base+LibStride, ...; the        *)
(* functions of a library get First, First+FuncStride, ... inside the library's   *)
(* area and, when an area is exhausted, continue in a freshly reserved area (so   *)
(* that no two functions ever share an address).  Function ids are strings;       *)
(* "#n" stands for the ordinal n.                                                 *)
EXTENDS Integers, Sequences, FiniteSets, TLC

CONSTANTS LibNames,      \* raw library names used by operations
          Canon,         \* [LibNames -> canonical name] (lower-case, ".dll" appended when no dot)
          Funcs,         \* function ids
          Base, LibStride, FuncStride, First

VARIABLES base,      \* canonical lib name -> base address
          stub,      \* <<canonical lib, func>> -> stub address
          lastad,    \* canonical lib -> next stub address of that library
          nextbase,  \* next free area
          ret
vars == <<base, stub, lastad, nextbase, ret>>

Init == /\ base = <<>> /\ stub = <<>> /\ lastad = <<>> /\ nextbase = Base /\ ret = 0
Libs == DOMAIN base
Ext(f, k, v) == [x \in DOMAIN f \cup {k} |-> IF x = k THEN v ELSE f[x]]

GetBase(n) ==
  LET c == Canon[n] IN
  IF c \in Libs THEN ret' = base[c] /\ UNCHANGED <<base, stub, lastad, nextbase>>
  ELSE /\ base' = Ext(base, c, nextbase) /\ lastad' = Ext(lastad, c, nextbase + First)
       /\ nextbase' = nextbase + LibStride /\ ret' = nextbase /\ stub' = stub

(* the area reserved for the library is exhausted when the next stub address has  *)
(* reached the start (+First) of a later area                                     *)
Exhausted(c) == lastad[c] - First # base[c] /\ (lastad[c] - First - base[c]) % LibStride = 0
GetFunc(n, f) ==      \* library must have been created by GetBase
  LET c == Canon[n] IN
  /\ c \in Libs
  /\ IF <<c, f>> \in DOMAIN stub
     THEN ret' = stub[<<c, f>>] /\ UNCHANGED <<base, stub, lastad, nextbase>>
     ELSE LET ad == IF Exhausted(c) THEN nextbase + First ELSE lastad[c] IN
          /\ stub' = Ext(stub, <<c, f>>, ad) /\ lastad' = [lastad EXCEPT ![c] = ad + FuncStride]
          /\ nextbase' = IF Exhausted(c) THEN nextbase + LibStride ELSE nextbase
          /\ ret' = ad /\ base' = base
GetFuncBadBase(a) ==   \* an address that is no library base: ValueError, nothing changes
  /\ \A c \in Libs : base[c] # a
  /\ ret' = -1 /\ UNCHANGED <<base, stub, lastad, nextbase>>

Do(o) == CASE o.op = "GetBase" -> GetBase(o.n)
           [] o.op = "GetFunc" -> GetFunc(o.n, o.f)
           [] o.op = "BadBase" -> GetFuncBadBase(o.a)
Ops == [op : {"GetBase"}, n : LibNames] \cup [op : {"GetFunc"}, n : LibNames, f : Funcs]
       \cup [op : {"BadBase"}, a : {Base + 1, Base + First}]
Next == \E o \in Ops : Do(o)
Spec == Init /\ [][Next]_vars

----------------------------------------------------------------------------
(* Properties (C45) *)
Injective == \A p, q \in DOMAIN stub : stub[p] = stub[q] => p = q
Stable == [][\A p \in DOMAIN stub : p \in DOMAIN stub' /\ stub'[p] = stub[p]]_vars
BasesDistinct == \A a, b \in Libs : base[a] = base[b] => a = b
SameAnswer == [][\A n \in LibNames, f \in Funcs :
                   (GetFunc(n, f) /\ <<Canon[n], f>> \in DOMAIN stub) => ret' = stub[<<Canon[n], f>>]]_vars

StubList == {<<p[1], p[2], stub[p]>> : p \in DOMAIN stub}
BaseList == {<<c, base[c]>> : c \in Libs}
Proj == [stubs |-> StubList, bases |-> BaseList]
AbsView == <<base, stub, lastad, nextbase>>
ToSet(q) == {q[i] : i \in 1..Len(q)}
Matches(j) == /\ Cardinality(DOMAIN stub) = j.nstubs /\ Cardinality(Libs) = j.nbases
              /\ (j.full => (StubList = ToSet(j.stubs) /\ BaseList = ToSet(j.bases)))
StubBound == Cardinality(DOMAIN stub) <= 6
=============================================================================
