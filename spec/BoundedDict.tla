------------------------------ MODULE BoundedDict ------------------------------
(* miasm.core.utils.BoundedDict  (property C29; also the block cache of the      *)
(* jitter, property C21).  One action per public call; `Do(o)` dispatches on a   *)
(* JSON-shaped operation record so the same actions serve model checking,        *)
(* behaviour generation (spec -> code) and trace validation (code -> spec).      *)
EXTENDS Naturals, Sequences, FiniteSets, TLC

CONSTANTS Keys,      \* set of key strings
          Vals,      \* set of values
          Max,       \* max_size
          Min,       \* effective min_size (>= 1, <= Max)
          HasCb      \* a deletion callback is configured (otherwise nothing is logged)

VARIABLES data,      \* key -> value   (function on the held keys)
          cnt,       \* key -> use counter
          cb,        \* callback log since creation (sequence of keys)
          alive,     \* FALSE after __del__
          ret        \* observable result of the last call

vars == <<data, cnt, cb, alive, ret>>
Dom == DOMAIN data

TypeOK == /\ Dom \subseteq Keys /\ DOMAIN cnt = Dom
          /\ \A k \in Dom : data[k] \in Vals /\ cnt[k] \in Nat \ {0}

Init == /\ data = [k \in {} |-> 0] /\ cnt = [k \in {} |-> 0]
        /\ cb = <<>> /\ alive = TRUE /\ ret = "none"

Log(p) == IF HasCb THEN cb \o p ELSE cb
Restrict(f, S) == [k \in S |-> f[k]]

(* All orders in which a set can be listed. *)
RECURSIVE Perms(_)
Perms(S) == IF S = {} THEN {<<>>}
            ELSE UNION {{<<x>> \o p : p \in Perms(S \ {x})} : x \in S}

(* Eviction: keep a set K of the NKeep most used keys -- any K consistent with  *)
(* the counters on ties -- and call back every other key exactly once, in        *)
(* non-increasing counter order.  The drop sequence p determines K.              *)
NKeep == IF Min - 1 < Cardinality(Dom) THEN Min - 1 ELSE Cardinality(Dom)
Range(p) == {p[i] : i \in 1..Len(p)}
ValidDrop(p) ==
  LET K == Dom \ Range(p) IN
  /\ Range(p) \subseteq Dom
  /\ \A i, j \in 1..Len(p) : i < j => (p[i] # p[j] /\ cnt[p[i]] >= cnt[p[j]])
  /\ Cardinality(K) = NKeep
  /\ \A a \in K, b \in Range(p) : cnt[a] >= cnt[b]
KeepSets == {K \in SUBSET Dom : /\ Cardinality(K) = NKeep
                                /\ \A a \in K, b \in Dom \ K : cnt[a] >= cnt[b]}
DropSeqs == UNION {{p \in Perms(Dom \ K) : ValidDrop(p)} : K \in KeepSets}
Evicting(k) == k \notin Dom /\ Cardinality(Dom) + 1 >= Max

(* Set with the drop sequence made explicit: trace validation binds p to the     *)
(* logged callbacks, generation quantifies over every allowed p.                 *)
SetWith(k, v, p) ==
  /\ alive
  /\ IF k \in Dom
     THEN /\ p = <<>>
          /\ data' = [data EXCEPT ![k] = v]
          /\ cnt' = [cnt EXCEPT ![k] = @ + 1]
          /\ cb' = cb
     ELSE IF Cardinality(Dom) + 1 >= Max
          THEN LET K == Dom \ Range(p) IN
                 /\ ValidDrop(p)
                 /\ data' = [x \in K \cup {k} |-> IF x = k THEN v ELSE data[x]]
                 /\ cnt' = [x \in K \cup {k} |-> 1]
                 /\ cb' = Log(p)
          ELSE /\ p = <<>>
               /\ data' = [x \in Dom \cup {k} |-> IF x = k THEN v ELSE data[x]]
               /\ cnt' = [x \in Dom \cup {k} |-> IF x = k THEN 1 ELSE cnt[x]]
               /\ cb' = cb
  /\ ret' = "none" /\ alive' = alive

Set(k, v) == \E p \in (IF Evicting(k) THEN DropSeqs ELSE {<<>>}) : SetWith(k, v, p)

Get(k) ==
  /\ alive
  /\ IF k \in Dom
     THEN /\ ret' = data[k] /\ cnt' = [cnt EXCEPT ![k] = @ + 1]
     ELSE /\ ret' = "KeyError" /\ cnt' = cnt
  /\ UNCHANGED <<data, cb, alive>>

Del(k) ==
  /\ alive
  /\ IF k \in Dom
     THEN /\ data' = Restrict(data, Dom \ {k}) /\ cnt' = Restrict(cnt, Dom \ {k})
          /\ cb' = Log(<<k>>) /\ ret' = "none"
     ELSE /\ ret' = "KeyError" /\ UNCHANGED <<data, cnt, cb>>   \* no callback for an absent key
  /\ alive' = alive

Contains(k) == /\ alive /\ ret' = (k \in Dom) /\ UNCHANGED <<data, cnt, cb, alive>>

DestroyWith(p) ==   \* __del__: one callback per held key, any order
  /\ alive
  /\ Len(p) = Cardinality(Dom) /\ Range(p) = Dom
  /\ cb' = Log(p)
  /\ data' = [k \in {} |-> 0] /\ cnt' = [k \in {} |-> 0]
  /\ alive' = FALSE /\ ret' = "none"
Destroy == \E p \in Perms(Dom) : DestroyWith(p)

Do(o) == CASE o.op = "Set"      -> Set(o.k, o.v)
           [] o.op = "Get"      -> Get(o.k)
           [] o.op = "Del"      -> Del(o.k)
           [] o.op = "Contains" -> Contains(o.k)
           [] o.op = "Destroy"  -> Destroy

Ops == [op : {"Set"}, k : Keys, v : Vals] \cup [op : {"Get", "Del", "Contains"}, k : Keys]
       \cup [op : {"Destroy"}]

Next == \E o \in Ops : Do(o)
Spec == Init /\ [][Next]_vars

----------------------------------------------------------------------------
(* Properties (C29) *)
SizeBound == Cardinality(Dom) <= Max
Count(s, k) == Cardinality({i \in 1..Len(s) : s[i] = k})
(* never a callback for a key that is kept by the same step; at most one per step per key *)
CallbackContract ==
  [][ ~HasCb \/ LET new == SubSeq(cb', Len(cb) + 1, Len(cb'))
          dropped == Dom \ DOMAIN data'
      IN /\ \A k \in Keys : Count(new, k) = IF k \in dropped THEN 1 ELSE 0 ]_vars
(* eviction only when a new key arrives at the limit *)
EvictOnlyAtLimit ==
  [][ \A k \in Dom : (k \notin DOMAIN data' /\ alive') =>
        \/ Cardinality(Dom) + 1 >= Max      \* eviction
        \/ Cardinality(Dom \ DOMAIN data') = 1 ]_vars   \* a Del
LastValue == [][ \A k \in Dom \cap DOMAIN data' :
                   data'[k] # data[k] => ret' = "none" ]_vars
----------------------------------------------------------------------------
(* Binding interface (see harness/gen.py, harness/tracecheck.py) *)
Proj == [data |-> data, cb |-> cb, alive |-> alive]   \* public observables only (cnt is inferred)
AbsView == <<data, cnt, alive>>      \* fingerprint for generation: callback log is history
Matches(j) == /\ Dom = {j.keys[i] : i \in 1..Len(j.keys)}
              /\ \A i \in 1..Len(j.keys) : data[j.keys[i]] = j.vals[i]
              /\ cb = j.cb /\ alive = j.alive
(* without a callback the drop order is unobservable: only the dropped set matters *)
SetDrop(k, v, D) ==
  LET K == Dom \ D IN
  /\ alive /\ Evicting(k) /\ D \subseteq Dom /\ Cardinality(K) = NKeep
  /\ \A a \in K, b \in D : cnt[a] >= cnt[b]
  /\ data' = [x \in K \cup {k} |-> IF x = k THEN v ELSE data[x]]
  /\ cnt' = [x \in K \cup {k} |-> 1]
  /\ cb' = cb /\ ret' = "none" /\ alive' = alive
DestroyQuiet == /\ alive /\ ~HasCb /\ cb' = cb /\ data' = [k \in {} |-> 0] /\ cnt' = [k \in {} |-> 0]
                /\ alive' = FALSE /\ ret' = "none"
(* trace-mode dispatcher: the logged callback suffix fixes the drop sequence *)
TDo(e) == IF ~HasCb /\ e.o.op = "Set" /\ Evicting(e.o.k)
          THEN SetDrop(e.o.k, e.o.v, Dom \ {e.st.keys[i] : i \in 1..Len(e.st.keys)})
          ELSE IF ~HasCb /\ e.o.op = "Destroy" THEN DestroyQuiet
          ELSE IF e.o.op = "Set" /\ Len(e.st.cb) >= Len(cb)
          THEN SetWith(e.o.k, e.o.v, SubSeq(e.st.cb, Len(cb) + 1, Len(e.st.cb)))
          ELSE IF e.o.op = "Destroy" /\ Len(e.st.cb) >= Len(cb)
          THEN DestroyWith(SubSeq(e.st.cb, Len(cb) + 1, Len(e.st.cb)))
          ELSE Do(e.o)
=============================================================================
