"""C11 match_expr only reports genuine matches (substituting the bindings into the pattern gives the expression)."""
import itertools

from .. import core
from .. import exprjson as X
from .. import exprgen


def patterns_and_exprs(ctx, n_random):
    import miasm.expression.expression as m
    rng = ctx.rng
    W = 8
    j1, j2, j3 = m.ExprId("jok1", W), m.ExprId("jok2", W), m.ExprId("jok3", W)
    a, b, c = m.ExprId("a", W), m.ExprId("b", W), m.ExprId("c", W)
    k1, k2 = m.ExprInt(1, W), m.ExprInt(2, W)
    leaves_e = [a, b, c, k1, k2]
    leaves_p = [j1, j2, a, k1]
    ops = ["+", "^", "&", "-", "<<"]

    def build(leaves, depth):
        out = list(leaves)
        if depth == 0:
            return out
        sub = build(leaves, depth - 1)
        for op in ops:
            for x, y in itertools.product(sub[:7], repeat=2):
                out.append(m.ExprOp(op, x, y))
        for x in sub[:6]:
            out.append(m.ExprOp("-", x))
            out.append(x[0:4])
            out.append(x[2:8])
            out.append(x[0:8] if False else x[1:5])
            out.append(m.ExprMem(x.zeroExtend(32), 8))
            out.append(m.ExprMem(x.zeroExtend(32), 16)[0:8])
        for x, y in itertools.product(sub[:5], repeat=2):
            out.append(m.ExprCond(x, y, x))
            out.append(m.ExprCompose(x[0:4], y[0:4]))
            out.append(m.ExprCompose(x, y)[0:8])
        for x, y, z in itertools.product(sub[:4], repeat=3):
            out.append(m.ExprOp("+", x, y, z))
            out.append(m.ExprCompose(x[0:4], y[0:2], z[0:2]))
            out.append(m.ExprCompose(x, y, z)[0:8])
        return out
    exprs = list(dict.fromkeys(build(leaves_e, 1)))
    pats = list(dict.fromkeys(build(leaves_p, 1)))
    pairs = []
    for e in exprs:
        for p in pats:
            pairs.append((e, p, [j1, j2, j3]))
    # deeper random pairs: a pattern is derived from an expression by replacing subterms with jokers (and perturbing)
    g = exprgen.Gen(rng, widths=[8, 16, 32], allow_div=False)
    for _ in range(n_random):
        w = rng.choice([8, 16, 32])
        e = g.expr(w, rng.choice([2, 3]))
        jk = [m.ExprId("jok%d" % i, s) for i, s in enumerate([8, 16, 32, 1, 8, 16, 32])]
        subs = []
        e.visit(lambda x: subs.append(x) or x)
        p = e
        for _ in range(rng.randrange(1, 4)):
            s = rng.choice(subs)
            cand = [j for j in jk if j.size == s.size]
            if cand:
                p = p.replace_expr({s: rng.choice(cand)})
        if rng.random() < 0.4:
            e2 = g.expr(w, rng.choice([1, 2]))
        else:
            e2 = e
            if rng.random() < 0.5 and subs:
                s = rng.choice(subs)
                e2 = e.replace_expr({s: g.expr(s.size, 1)})
        pairs.append((e2, p, jk))
    return pairs


def run(ctx):
    from miasm.expression.expression import match_expr
    q = ctx.quick
    pairs = patterns_and_exprs(ctx, 3000 if q else 40000)
    if q:
        head = [p for p in pairs[:-3000]]
        pairs = ctx.rng.sample(head, min(len(head), 60000)) + pairs[-3000:]
    items, meta = [], []
    nfalse = 0
    for e, p, jk in pairs:
        try:
            r = match_expr(e, p, jk)
        except Exception as ex:
            ctx.violation("match-raised", {"expr": str(e), "pattern": str(p), "raised": type(ex).__name__ + ":" + str(ex)[:200]})
            continue
        if r is False:
            nfalse += 1
            continue
        if r is True:
            r = {}          # a joker-free pattern equal to the expression: a match without bindings
        if not isinstance(r, dict):
            ctx.violation("match-result-not-a-binding", {"expr": str(e), "pattern": str(p), "result": repr(r)[:200]})
            continue
        try:
            bind = [{"j": k.name, "e": X.to_json(v)} for k, v in r.items()]
            items.append({"t": "match", "a": X.to_json(e), "p": X.to_json(p), "bind": bind + [{"j": "__none", "e": {"k": "int", "w": 1, "v": [0]}}]})
            meta.append((e, p, r))
        except ValueError:
            continue
    verdicts = X.judge(ctx, items, label="c11", chunk=6000)
    counts = {"no-match": nfalse}
    for v, mt in zip(verdicts, meta):
        counts[v] = counts.get(v, 0) + 1
        if v != "ok":
            ctx.violation("match-not-genuine", {"expr": str(mt[0]), "pattern": str(mt[1]),
                                                "bindings": {str(k): str(x) for k, x in mt[2].items()}, "verdict": v})
    ctx.traces += len(items)
    ctx.evaluations += len(pairs)
    ctx.distinct = set((str(mt[0]), str(mt[1])) for mt in meta)
    for k in (0, len(meta) // 2, len(meta) - 1):
        ctx.sample({"expr": str(meta[k][0]), "pattern": str(meta[k][1]), "bindings": {str(a): str(b) for a, b in meta[k][2].items()},
                    "tlc_verdict": verdicts[k]})
    ctx.notes["verdicts"] = counts
    ctx.notes["pairs_tried"] = len(pairs)
    ctx.assumptions += ["soundness only (a reported match must be genuine); completeness of matching is not part of the property",
                        "equality is structural up to the argument order of + * & | ^ (derived widths of inner nodes are recomputed)"]
    return ("(expression, pattern) pairs: all pairs of depth<=1 terms over {+,^,&,-,<<,slice,mem,cond,compose, 3-ary + and compose} "
            "with 2 jokers, plus random deeper pairs obtained by replacing subterms by jokers and perturbing; every reported match is "
            "validated by TLC: Subst(pattern, bindings) = expression modulo commutativity, one binding per joker")
