"""C32 the assembler lays out programs at their pinned addresses: Layout.tla states what asm_resolve_final must produce; random programs
with a witness layout (the all-pinned assembly) are assembled with some chains left free into a bounded range and judged by TLC."""
from .. import core
from .. import exprjson as X

REGS = ["EAX", "EBX", "ECX", "EDX", "ESI", "EDI"]


def gen_program(rng):
    """chains of blocks; every chain starts with a label c<i>; references to other chains' labels: jumps, calls, memory operands,
    immediates, label arithmetic"""
    nch = rng.randrange(2, 6)
    labels = ["c%d" % i for i in range(nch)]
    chains = []
    for i in range(nch):
        lines = []
        if i == nch - 1 and rng.random() < 0.5:          # data last: a data block falls through to whatever follows it
            lines.append(".long 0x%X" % rng.getrandbits(32))
            if rng.random() < 0.5:
                lines.append(".long 0x%X" % rng.getrandbits(32))
            chains.append((labels[i], lines, True))
            continue
        for _ in range(rng.randrange(1, 7)):
            c = rng.random()
            other = rng.choice(labels)
            if c < 0.3:
                lines.append("    %s %s, 0x%X" % (rng.choice(["MOV", "ADD", "XOR"]), rng.choice(REGS), rng.choice([1, 0x80, 0x11223344])))
            elif c < 0.4:
                lines.append("    MOV %s, DWORD PTR [%s]" % (rng.choice(REGS), other))
            elif c < 0.48:
                lines.append("    MOV %s, %s" % (rng.choice(REGS), other))
            elif c < 0.54:
                lines.append("    PUSH %s" % other)
            elif c < 0.6:
                lines.append("    MOV %s, DWORD PTR [%s + 4]" % (rng.choice(REGS), other))
            elif c < 0.75:
                lines.append("    %s %s" % (rng.choice(["JZ", "JNZ", "JB", "JGE"]), other))
            elif c < 0.85:
                lines.append("    CALL %s" % other)
            else:
                lines.append("    %s %s" % (rng.choice(["INC", "DEC", "NOT"]), rng.choice(REGS)))
        lines.append(rng.choice(["    RET", "    JMP %s" % rng.choice(labels), "    RET"]))
        chains.append((labels[i], lines, False))
    return chains


def source(chains):
    out = []
    for name, lines, _ in chains:
        out.append("%s:" % name)
        out += lines
    return "\n".join(out) + "\n"


def canon(e, loc_db):
    """expression -> text with labels replaced by their addresses and integers without width"""
    if e.is_int():
        return "%x" % int(e)
    if e.is_loc():
        off = loc_db.get_location_offset(e.loc_key)
        return "%x" % off if off is not None else "?"
    if e.is_id():
        return e.name
    if e.is_mem():
        return "@%d[%s]" % (e.size, canon(e.ptr, loc_db))
    if e.is_op():
        if e.op == "+" and all(a.is_int() or a.is_loc() for a in e.args):
            tot = 0
            for a in e.args:
                tot += int(a) if a.is_int() else (loc_db.get_location_offset(a.loc_key) or 0)
            return "%x" % (tot & 0xffffffff)
        return "%s(%s)" % (e.op, ",".join(canon(a, loc_db) for a in e.args))
    if e.is_slice():
        return "%s[%d:%d]" % (canon(e.arg, loc_db), e.start, e.stop)
    return str(e)


def assemble(machine, src, pins, lo, hi):
    from miasm.core.locationdb import LocationDB
    from miasm.core import parse_asm
    from miasm.core.asmblock import asm_resolve_final, AsmConstraint
    from miasm.core.interval import interval
    from miasm.core.bin_stream import bin_stream_str
    loc_db = LocationDB()
    cfg = parse_asm.parse_txt(machine.mn, 32, src, loc_db)
    for name, addr in pins.items():
        loc_db.set_location_offset(loc_db.get_name_location(name), addr)
    # what the program says, before assembling (instructions are modified in place by the assembler)
    patches = asm_resolve_final(machine.mn, cfg, dst_interval=interval([(lo, hi - 1)]))
    image = bytearray(hi - lo)
    for o, b in patches.items():
        if lo <= o and o + len(b) <= hi:
            image[o - lo:o - lo + len(b)] = b
    bs = bin_stream_str(bytes(image), base_address=lo)
    blocks = []
    for b in cfg.blocks:
        names = loc_db.get_location_names(b.loc_key)
        name = sorted(names)[0] if names else "loc_%d" % b.loc_key.key
        start = loc_db.get_location_offset(b.loc_key)
        want, got = [], []
        off = start
        size = 0
        for l in b.lines:
            if not hasattr(l, "name") or l.__class__.__name__ == "AsmRaw":
                n = len(l.raw) if hasattr(l, "raw") and isinstance(l.raw, (bytes, bytearray)) else l.l
                want.append("raw")
                got.append("raw")
                off += n
                size += n
                continue
            want.append(l.name + " " + ",".join(canon(a, loc_db) for a in getattr(l, "args_orig", l.args)))
            try:
                d = machine.mn.dis(bs, 32, off)
                if d.dstflow():
                    d.dstflow2label(loc_db)
                got.append(d.name + " " + ",".join(canon(a, loc_db) for a in d.args))
                off += d.l
                size += d.l
            except Exception as ex:
                got.append("undecodable:" + type(ex).__name__)
                off += l.l or 1
                size += l.l or 1
        nxt = [c for c in b.bto if c.c_t == AsmConstraint.c_next]
        nname = ""
        if nxt:
            nn = loc_db.get_location_names(nxt[0].loc_key)
            nname = sorted(nn)[0] if nn else "loc_%d" % nxt[0].loc_key.key
        blocks.append({"name": name, "start": start if start is not None else -1, "size": size, "next": nname, "pin": pins.get(name, -1),
                       "want": want, "got": got})
    return blocks, [{"off": o, "len": len(b)} for o, b in sorted(patches.items())]


def run(ctx):
    import logging
    from miasm.analysis.machine import Machine
    logging.getLogger("asmblock").setLevel(logging.CRITICAL)
    q = ctx.quick
    rng = ctx.rng
    machine = Machine("x86_32")
    items, meta = [], []
    skipped = 0
    for n in range(150 if q else 900):
        chains = gen_program(rng)
        src = source(chains)
        # the witness: every chain pinned, in a random order, with random gaps
        order = list(range(len(chains)))
        rng.shuffle(order)
        base = 0x1000
        pins = {}
        addr = base
        # (the assembler reserves a pessimistic size for a chain before it knows the encodings: the witness leaves that room)
        for i in order:
            pins[chains[i][0]] = addr
            addr += 16 * (len(chains[i][1]) + 1) + rng.choice([0, 0, 4, 0x10, 0x23])
        hi_w = addr + 0x40
        worst = 16 * (sum(len(c[1]) for c in chains) + 2)
        try:
            with core.deadline(30):
                wblocks, wpatches = assemble(machine, src, pins, base, hi_w)
        except Exception:
            skipped += 1
            continue
        # chains of the witness: a pinned head and the blocks that follow it by fall-through
        byname = {b["name"]: b for b in wblocks}
        witness = []
        end_max = base
        for name, _, _ in chains:
            b = byname[name]
            size = 0
            cur = b
            while True:
                size += cur["size"]
                if not cur["next"] or cur["next"] in pins:
                    break
                cur = byname[cur["next"]]
            witness.append({"name": name, "start": b["start"], "size": size})
            end_max = max(end_max, b["start"] + size)
        # now leave some chains free, in a range that is tight or has some slack
        free = set(rng.sample([c[0] for c in chains[1:]], rng.randrange(1, len(chains)))) if len(chains) > 1 else set()
        pins2 = {k: v for k, v in pins.items() if k not in free}
        for w in witness:
            w["pin"] = pins2.get(w["name"], -1)
        # a roomy range (the pessimistic reservation of every chain fits after the witness) and a tight one
        for tight, hi in ((False, end_max + worst), (True, end_max + rng.choice([0, 1, 8, 0x20]))):
            it = {"lo": base, "hi": hi, "witness": witness, "blocks": [], "patches": [{"off": base, "len": 0}], "raised": ""}
            try:
                with core.deadline(60):
                    it["blocks"], it["patches"] = assemble(machine, src, pins2, base, hi)
            except Exception as ex:
                it["raised"] = type(ex).__name__ + ":" + str(ex)[:120].replace('"', "'")
            items.append(it)
            meta.append((src, pins2, hex(base), hex(hi), [(w["name"], hex(w["start"]), w["size"]) for w in witness], tight))
    verdicts = X.judge(ctx, items, label="c32", module="LayoutJudge", chunk=300)
    counts = {}
    roomy_ok = {}
    for v, mt, it in zip(verdicts, meta, items):
        key = ("tight:" if mt[5] else "roomy:") + ":".join(v.split(":")[:2])[:60]
        counts[key] = counts.get(key, 0) + 1
        if v.startswith("model"):
            raise core.MachineryError("the witness layout is not valid: %r" % (mt,))
        roomy_ok[(mt[0], str(mt[1]))] = roomy_ok.get((mt[0], str(mt[1])), False) or (not mt[5] and v == "ok")
        if (mt[5] and v.startswith("bad:fails-although-a-layout-exists") and roomy_ok.get((mt[0], str(mt[1])))
                and "pessimistic-size-reservation" in ctx.findings):
            ctx.known("pessimistic-size-reservation", "%s in range %s..%s pinned %r: %s" % (mt[0].replace("\n", "; ")[:200], mt[2], mt[3], mt[1], v))
            continue
        if v != "ok":
            ctx.violation("layout-differs", {"program": mt[0], "pinned": {k: hex(a) for k, a in mt[1].items()}, "range": [mt[2], mt[3]], "witness_layout": mt[4],
                                             "verdict": v})
    ctx.traces += len(items)
    ctx.evaluations += sum(len(i["blocks"]) for i in items)
    ctx.distinct = set(m[0] + str(m[1]) for m in meta)
    for k in (0, len(meta) // 2, len(meta) - 1):
        ctx.sample({"program": meta[k][0][:400], "pinned": meta[k][1], "range": meta[k][2:4], "tlc_verdict": verdicts[k]})
    ctx.notes["verdicts"] = counts
    ctx.notes["programs_skipped_because_the_witness_assembly_failed"] = skipped
    ctx.assumptions += ["x86-32 programs of 2..5 chains (code with jumps / calls / memory operands / immediates / label + 4 referring to other "
                        "chains, data words); the witness layout is the assembly with every chain pinned (random order, random gaps)",
                        "two destination ranges per program: roomy (the witness end plus 16 bytes per instruction: what the assembler reserves before it knows the encodings) and tight (0..0x20 bytes after the witness end)"]
    return ("each program is assembled twice: with every chain pinned (the witness layout, validated by TLC: disjoint, inside the range) and "
            "with a random subset of chains left free in the bounded range; TLC (Layout.tla) requires success, pinned labels at their "
            "addresses, disjoint patches inside the range, contiguous fall-through blocks, and the decoding of every block equal to the "
            "program's instructions with labels replaced by their final addresses")
