"""C44 loading a binary maps its sections and imports faithfully: Loader.tla states what memory must hold after loading; PE images built
with miasm.loader and hand-assembled ELF images are loaded and the observed memory is judged by TLC."""
import struct

from .. import core, overlay
from .. import exprjson as X

FUNCS = {"kernel32.dll": ["CreateFileA", "CloseHandle", "WriteFile", "ReadFile", "ExitProcess", "Sleep"],
         "user32.dll": ["GetMenu", "HideCaret", "MessageBoxA"], "ntdll.dll": ["RtlZeroMemory", "NtClose"]}


def probes(vm, va, vsize, rawlen):
    ks = set(range(0, min(vsize, rawlen + 24)))
    for k in (vsize - 1, vsize - 2, 0xfff, 0x1000, 0x1001, 0x1fff, 0x2000, rawlen + 0x1000, vsize // 2):
        if 0 <= k < vsize:
            ks.add(k)
    out = []
    for k in sorted(ks):
        out.append({"k": k, "b": vm.get_mem(va + k, 1)[0] if vm.is_mapped(va + k, 1) else -1})
    return out


def page_writable(vm, addr):
    from miasm.jitter.csts import PAGE_WRITE
    for base, info in vm.get_all_memory().items():
        if base <= addr < base + info["size"]:
            return bool(info["access"] & PAGE_WRITE)
    return False


def pe_case(rng):
    from miasm.loader.pe_init import PE
    from miasm.jitter.VmMngr import Vm
    from miasm.jitter.loader.pe import vm_load_pe, preload_pe, libimp_pe, get_import_address_pe
    pe = PE()
    secs = []
    nsec = rng.randrange(1, 4)
    for i in range(nsec):
        data = bytes(rng.randrange(1, 256) for _ in range(rng.choice([1, 7, 0x40, 0x1ff, 0x200, 0x201, 0x1000, 0x1003])))
        flags = rng.choice([0xE0000020, 0x60000020, 0x40000040, 0xC0000040])
        s = pe.SHList.add_section(name="s%d" % i, data=data, flags=flags, rawsize=max(0x400, (len(data) + 0x1ff) & ~0x1ff) if rng.random() < 0.7 else len(data))
        if rng.random() < 0.4:
            s.size = (len(s.data) + rng.choice([0, 1, 0x800, 0x1000, 0x2345]) + 0xfff) & ~0xfff if rng.random() < 0.5 else max(0x1000, s.size) + rng.choice([0, 0x1000, 0x3000])
            pe.NThdr.sizeofimage = (s.addr + s.size + 0xfff) & ~0xfff
        secs.append((s, flags))
    dlls = []
    nd = rng.randrange(0, 4)
    want = []
    if nd:
        iat = pe.SHList.add_section(name="myiat", rawsize=0x1000)
        secs.append((iat, 0xE0000020))
    for d in range(nd):
        lib = rng.choice(sorted(FUNCS))
        fns = rng.sample(FUNCS[lib], rng.randrange(1, min(4, len(FUNCS[lib]) + 1)))
        dlls.append(({"name": lib, "firstthunk": iat.addr + 0x80 * d}, fns))
        want += [(lib, f) for f in fns]
    if dlls:
        pe.DirImport.add_dlldesc(dlls)
        simp = pe.SHList.add_section(name="myimp", rawsize=0x1000)
        pe.DirImport.set_rva(simp.addr)
        secs.append((simp, 0xE0000020))
    expected = [(s.addr, s.size, bytes(s.data), bool(f & 0x80000000)) for s, f in secs]
    raw = bytes(pe)
    vm = Vm()
    libs = libimp_pe()
    item = {"fmt": "pe", "secs": [], "slots": [], "raised": ""}
    try:
        e = vm_load_pe(vm, raw, name="x.exe")
        preload_pe(vm, e, libs)
        base = e.NThdr.ImageBase
        parsed = {s.name.strip(b"\x00").decode(): s for s in e.SHList}
        for (rva, vsize, data, w), (s, f) in zip(expected, secs):
            name = s.name if isinstance(s.name, str) else s.name.strip(b"\x00").decode()
            imp = name in ("myimp", "myiat")
            va = base + rva
            item["secs"].append({"va": va, "vsize": vsize, "raw": list(data) if not imp else [], "w": w,
                                 "mapped": bool(vm.is_mapped(va, vsize)), "probes": probes(vm, va, vsize, len(data)) if not imp else [],
                                 "gotw": page_writable(vm, va)})
        slots = get_import_address_pe(e)
        for (lib, fn), ads in sorted(slots.items()):
            for ad in sorted(ads):
                stub = struct.unpack("<I", vm.get_mem(ad, 4))[0]
                info = libs.fad2info.get(stub)
                off2name = {v: k for k, v in libs.name2off.items()}
                item["slots"].append({"lib": lib, "fn": fn if isinstance(fn, str) else str(fn), "isstub": info is not None,
                                      "stublib": off2name.get(info[0], "?") if info else "", "stubfn": str(info[1]) if info else ""})
        got = sorted((x["lib"], x["fn"]) for x in item["slots"])
        if got != sorted(set(want)) and got != sorted(want):
            item["raised"] = "import slots found %r, declared %r" % (got, sorted(want))
    except Exception as ex:
        item["raised"] = type(ex).__name__ + ":" + str(ex)[:120].replace('"', "'")
    return item, "PE sections %r imports %r" % ([(hex(a), hex(v), len(d), w) for a, v, d, w in expected], want)


def build_elf32(segments, junk=b"\xEE" * 0x40):
    ehdr_size, phdr_size = 52, 32
    offset = ehdr_size + phdr_size * len(segments)
    phdrs, blob = b"", b""
    for vaddr, data, memsz, flags in segments:
        pad = (vaddr - offset) % 0x1000
        blob += b"\xCC" * pad
        offset += pad
        phdrs += struct.pack("<8I", 1, offset, vaddr, vaddr, len(data), memsz, flags, 0x1000)
        blob += data
        offset += len(data)
    ehdr = b"\x7fELF" + bytes([1, 1, 1, 0]) + b"\x00" * 8
    ehdr += struct.pack("<HHIIIIIHHHHHH", 2, 3, 1, segments[0][0], ehdr_size, 0, 0, ehdr_size, phdr_size, len(segments), 40, 0, 0)
    return ehdr + phdrs + blob + junk


def elf_case(rng):
    from miasm.jitter.VmMngr import Vm
    from miasm.jitter.loader.elf import vm_load_elf
    segs = []
    va = 0x08048000 + rng.choice([0, 0x94, 0x400])
    for i in range(rng.randrange(1, 4)):
        data = bytes(rng.randrange(1, 256) for _ in range(rng.choice([0, 1, 0x33, 0x100, 0x400, 0xfff, 0x1000, 0x1234])))
        memsz = len(data) + rng.choice([0, 0, 1, 0x80, 0xf00, 0x1000, 0x2445])
        if memsz == 0:
            memsz = 0x10
        flags = rng.choice([5, 6, 4, 7])
        segs.append((va, data, memsz, flags))
        va = ((va + memsz + 0xfff) & ~0xfff) + rng.choice([0, 0x400, 0x1800, 0x3000])
    raw = build_elf32(segs)
    vm = Vm()
    item = {"fmt": "elf", "secs": [], "slots": [], "raised": ""}
    try:
        vm_load_elf(vm, raw, name="x.elf")
        for a, data, memsz, flags in segs:
            item["secs"].append({"va": a, "vsize": memsz, "raw": list(data), "w": bool(flags & 2), "mapped": bool(vm.is_mapped(a, memsz)),
                                 "probes": probes(vm, a, memsz, len(data)), "gotw": page_writable(vm, a)})
    except Exception as ex:
        item["raised"] = type(ex).__name__ + ":" + str(ex)[:120].replace('"', "'")
    return item, "ELF segments %r" % [(hex(a), len(d), hex(m), f) for a, d, m, f in segs]


def run(ctx):
    import logging
    logging.getLogger("loader_common").setLevel(logging.ERROR)
    logging.getLogger("vmmngr").setLevel(logging.ERROR)
    overlay.activate(ctx, ("VmMngr",))
    import miasm.jitter.loader.utils
    import miasm.jitter.loader.pe
    for name in ("loader_common", "loader_pe", "vmmngr", "loader_elf"):
        logging.getLogger(name).setLevel(logging.ERROR)
    q = ctx.quick
    rng = ctx.rng
    items, meta = [], []
    for n in range(120 if q else 450):
        for case in (pe_case, elf_case):
            it, desc = case(rng)
            # the slots field must not be an empty list of unknown element type for the judge: keep a neutral entry
            it["slots"].append({"lib": "-", "fn": "-", "isstub": True, "stublib": "-", "stubfn": "-"})
            items.append(it)
            meta.append(desc)
    verdicts = X.judge(ctx, items, label="c44", module="LoaderJudge", chunk=60)
    counts = {}
    for v, mt, it in zip(verdicts, meta, items):
        key = it["fmt"] + ":" + ":".join(v.split(":")[:2]) + (":" + v.split(":")[3].split("-at-")[0] if v.count(":") >= 3 else "")
        counts[key] = counts.get(key, 0) + 1
        if v.startswith("perm") and it["fmt"] == "elf" and "elf-segments-always-writable" in ctx.findings:
            ctx.known("elf-segments-always-writable", "%s: %s" % (mt, v))
            continue
        if v != "ok":
            ctx.violation("image-not-mapped-faithfully", {"image": mt, "verdict": v})
    ctx.traces += len(items)
    ctx.evaluations += sum(len(s["probes"]) for i in items for s in i["secs"])
    ctx.distinct = set(meta)
    for k in (0, len(meta) // 2, len(meta) - 1):
        ctx.sample({"image": meta[k], "tlc_verdict": verdicts[k]})
    ctx.notes["verdicts"] = counts
    ctx.assumptions += ["PE images built with miasm.loader.pe_init (1..3 page-aligned sections, raw size below / equal / above the data, "
                        "virtual size beyond the raw data, 0..3 import descriptors, repeated libraries); 32-bit little-endian ELF "
                        "executables assembled by hand (1..3 PT_LOAD segments, zero-filled tails of 0..0x2445 bytes, unaligned starts)",
                        "contents are probed on every file byte, 24 bytes beyond, page boundaries and the last bytes of the virtual size",
                        "PE images whose sections are not page-aligned (one big writable mapping by design) and ELF imports are not covered"]
    return ("random PE and ELF images are loaded with vm_load_pe + preload_pe / vm_load_elf into a fresh VmMngr; TLC (Loader.tla) "
            "requires every section / segment mapped on its whole virtual size, file bytes then zeros, the requested write "
            "permission, and every import slot to hold a stub address mapping back to its (library, function)")
