------------------------------- MODULE JitJudge -------------------------------
(* Batch judge: every item is one script played on one real jitter (a backend and  *)
(* a configuration) together with what was observed after each run; JitMachine.tla *)
(* plays the same script on the reference CPU and names the first difference.      *)
EXTENDS JitMachine, Json, IOUtils
VARIABLES lo, hi
Items == JsonDeserialize(IOEnv.ITEMS_FILE)
Init == lo = 1 /\ hi = Len(Items)
Next == /\ lo < hi
        /\ LET mid == (lo + hi) \div 2 IN
           \/ (lo' = lo /\ hi' = mid)
           \/ (lo' = mid + 1 /\ hi' = hi)
Report == lo < hi \/ PrintT("V " \o ToString(lo) \o " " \o Verdict(Items[lo]))
=============================================================================
