"""Shared machinery: context, TLC runner, evidence, findings, violation reports.

Exit codes of ./check:  0 = property held on everything explored,
                        1 = violation (a line `VIOLATION property=<id> replay=<path>` is printed),
                        2 = the machinery itself failed (TLC crash, parse error, timeout).
"""
import hashlib
import json
import os
import random
import re
import shutil
import subprocess
import sys
import tempfile
import time

VERIF = os.path.dirname(os.path.dirname(os.path.abspath(__file__)))
REPO = os.environ.get("VERIF_REPO", "/repo")
SPEC = os.path.join(VERIF, "spec")
# where evidence/ and replays/ are written (redirected while a seeded change is being tried)
OUT = os.environ.get("VERIF_OUT", VERIF)
TLA_JAR = "/opt/veriftools/tla/tla2tools.jar"
TLA_DEPS = "/opt/veriftools/tla/CommunityModules-deps.jar"
NCPU = min(16, os.cpu_count() or 1)


class MachineryError(Exception):
    """The checking machinery failed (not a property violation)."""


class Hang(Exception):
    """the code under test did not return within the deadline"""


class deadline(object):
    """with deadline(seconds): ... raises Hang when the body (pure Python code under test) does not finish in time"""
    def __init__(self, seconds):
        self.seconds = seconds

    def _alarm(self, *a):
        raise Hang("no result after %d s" % self.seconds)

    def __enter__(self):
        import signal
        self.old = signal.signal(signal.SIGALRM, self._alarm)
        signal.alarm(self.seconds)

    def __exit__(self, *a):
        import signal
        signal.alarm(0)
        signal.signal(signal.SIGALRM, self.old)
        return False


class Ctx(object):
    def __init__(self, pid, tier, seed):
        self.pid = pid
        self.tier = tier
        self.seed = seed
        self.rng = random.Random(seed)
        self.t0 = time.time()
        self.scratch = tempfile.mkdtemp(prefix="verif_%s_" % pid,
                                        dir=os.environ.get("VERIF_SCRATCH_BASE", "/var/tmp"))
        self.violations = []       # list of dict(kind, detail, replay)
        self.known_hits = []       # list of (finding id, text)
        self.states = 0
        self.transitions = 0
        self.traces = 0
        self.evaluations = 0
        self.distinct = set()
        self.samples = []
        self.notes = {}
        self.assumptions = []
        self.findings = load_findings(pid)

    @property
    def quick(self):
        return self.tier == "quick"

    def sub(self, name):
        d = os.path.join(self.scratch, name)
        os.makedirs(d, exist_ok=True)
        return d

    def cleanup(self):
        shutil.rmtree(self.scratch, ignore_errors=True)

    # -- reporting ------------------------------------------------------
    def sample(self, obj, limit=6):
        if len(self.samples) < limit:
            self.samples.append(obj)

    def violation(self, kind, detail):
        """Record a violation, write its replay file, print the VIOLATION line."""
        blob = json.dumps({"property": self.pid, "kind": kind, "detail": detail},
                          sort_keys=True, default=str)
        sha = hashlib.sha1(blob.encode()).hexdigest()[:16]
        d = os.path.join(OUT, "replays", self.pid)
        path = os.path.join(d, sha + ".json")
        self.violations.append({"kind": kind, "replay": path})
        if len(self.violations) <= 5:
            os.makedirs(d, exist_ok=True)
            with open(path, "w") as f:
                json.dump({"property": self.pid, "kind": kind, "detail": detail,
                           "seed": self.seed, "tier": self.tier}, f, indent=1, default=str)
            print("VIOLATION property=%s replay=%s" % (self.pid, path))
            print("  kind=%s %s" % (kind, json.dumps(detail, default=str)[:500]))
        elif os.environ.get("VERIF_ALLVIOL"):
            print("  more: kind=%s %s" % (kind, json.dumps(detail, default=str)[:int(os.environ.get("VERIF_ALLVIOL_LEN", "500"))]))
        elif len(self.violations) == 6:
            print("  (further violations counted, not listed)")
        sys.stdout.flush()

    def known(self, fid, text):
        if fid not in [k for k, _ in self.known_hits]:
            self.known_hits.append((fid, text))
            print("KNOWN-FINDING: property=%s %s: %s" % (self.pid, fid, text))
            sys.stdout.flush()

    def add_tlc(self, res):
        self.states += res.distinct
        self.transitions += res.generated


# ---------------------------------------------------------------------------
# known findings

def load_findings(pid):
    """known_findings.txt lines:
         finding: property=<id> id=<fid> <text>
         fixed: property=<id> <commit> <text>
       Only `finding:` lines select as-built behaviour; `fixed:` lines suppress nothing."""
    res = {}
    path = os.path.join(VERIF, "known_findings.txt")
    if not os.path.exists(path):
        return res
    for line in open(path):
        line = line.strip()
        m = re.match(r"finding:\s+property=(\S+)\s+id=(\S+)\s+(.*)", line)
        if m and m.group(1) == pid:
            res[m.group(2)] = m.group(3)
    return res


# ---------------------------------------------------------------------------
# TLC

class TLCResult(object):
    def __init__(self):
        self.generated = 0
        self.distinct = 0
        self.depth = 0
        self.ok = False
        self.error = None          # text of first error
        self.error_kind = None     # 'invariant' | 'property' | 'deadlock' | 'other'
        self.error_name = None
        self.prints = []           # decoded PrintT strings (when collect=True)
        self.tail = []
        self.wall = 0.0


_STATS = re.compile(r"(\d+) states generated, (\d+) distinct states found")
_SIM = re.compile(r"The number of states generated: (\d+)")
_DEPTH = re.compile(r"The depth of the complete state graph search is (\d+)")


def decode_print(line):
    """A PrintT of a string is shown as a TLA+ string literal; undo the escaping."""
    line = line.rstrip("\n")
    if len(line) >= 2 and line[0] == '"' and line[-1] == '"':
        try:
            return json.loads(line)
        except ValueError:
            return line[1:-1].replace('\\"', '"').replace("\\\\", "\\")
    return None


def run_tlc(ctx, name, module_text, cfg_text, workers=1, simulate=None, depth=None,
            timeout=1800, on_print=None, env_extra=None, seed=None, dfs=False,
            extra_files=None):
    """Write <name>.tla/.cfg into a scratch dir, run TLC, stream stdout.

    on_print(str) is called for every PrintT'd string (decoded)."""
    d = ctx.sub("tlc_" + name)
    with open(os.path.join(d, name + ".tla"), "w") as f:
        f.write(module_text)
    with open(os.path.join(d, name + ".cfg"), "w") as f:
        f.write(cfg_text)
    for fn, txt in (extra_files or {}).items():
        with open(os.path.join(d, fn), "w") as f:
            f.write(txt)
    lib = os.pathsep.join([SPEC, os.path.join(SPEC, "lib")])
    cmd = ["java", "-XX:+UseParallelGC", "-Xmx8g", "-Xss256m", "-DTLA-Library=" + lib]
    if dfs:
        cmd.append("-Dtlc2.tool.queue.IStateQueue=StateDeque")
    cmd += ["-cp", TLA_JAR + ":" + TLA_DEPS, "tlc2.TLC",
            "-workers", str(workers), "-metadir", os.path.join(d, "meta"),
            "-noGenerateSpecTE", "-config", name + ".cfg"]
    if simulate:
        cmd += ["-simulate", simulate]
        if depth:
            cmd += ["-depth", str(depth)]
        cmd += ["-seed", str(seed if seed is not None else ctx.seed)]
    cmd += [name + ".tla"]
    env = dict(os.environ)
    env.update(env_extra or {})
    res = TLCResult()
    t0 = time.time()
    proc = subprocess.Popen(cmd, cwd=d, env=env, stdout=subprocess.PIPE,
                            stderr=subprocess.STDOUT, text=True, errors="replace")
    errbuf = []
    in_err = False
    timed_out = []
    import threading

    def _kill():
        timed_out.append(1)
        proc.kill()
    timer = threading.Timer(timeout, _kill)
    timer.start()
    try:
        for line in proc.stdout:
            if line.startswith('"'):
                s = decode_print(line)
                if s is not None:
                    if on_print is not None:
                        on_print(s)
                    else:
                        res.prints.append(s)
                    continue
            res.tail.append(line.rstrip("\n"))
            if len(res.tail) > 400:
                del res.tail[:200]
            if line.startswith("Error:"):
                in_err = True
                if res.error is None:
                    res.error = line.strip()
                    m = re.search(r"Invariant (\S+) is violated", line)
                    if m:
                        res.error_kind, res.error_name = "invariant", m.group(1)
                    elif "Action property" in line or "Temporal properties" in line:
                        res.error_kind = "property"
                        m = re.search(r"property (\S+)", line)
                        res.error_name = m.group(1) if m else None
                    elif "Deadlock" in line:
                        res.error_kind = "deadlock"
                    else:
                        res.error_kind = "other"
            if in_err and len(errbuf) < 300:
                errbuf.append(line.rstrip("\n"))
            m = _STATS.search(line)
            if m:
                res.generated, res.distinct = int(m.group(1)), int(m.group(2))
            m = _SIM.search(line)
            if m:
                res.generated = res.distinct = int(m.group(1))
            m = _DEPTH.search(line)
            if m:
                res.depth = int(m.group(1))
        proc.wait()
    finally:
        timer.cancel()
        if proc.poll() is None:
            proc.kill()
    if timed_out:
        raise MachineryError("TLC %s timed out after %ds" % (name, timeout))
    res.wall = time.time() - t0
    if os.environ.get("VERIF_VERBOSE"):
        print("[tlc] %s %.1fs generated=%d distinct=%d" % (name, res.wall, res.generated, res.distinct), flush=True)
    res.errtext = "\n".join(errbuf)
    res.ok = (res.error is None and proc.returncode == 0)
    if res.error_kind == "other" or (res.error is None and proc.returncode != 0):
        raise MachineryError("TLC %s failed (rc=%s): %s\n%s" % (
            name, proc.returncode, res.error, "\n".join(res.tail[-40:])))
    return res


def tla_str(s):
    return '"' + s.replace("\\", "\\\\").replace('"', '\\"') + '"'


def tla_set(items):
    return "{" + ", ".join(items) + "}"


def tla_val(v):
    """Python JSON-ish value -> TLA+ literal (strings, ints, bools, lists=sequences,
    sets, dicts=records)."""
    if isinstance(v, bool):
        return "TRUE" if v else "FALSE"
    if isinstance(v, int):
        return str(v)
    if isinstance(v, str):
        return tla_str(v)
    if isinstance(v, (list, tuple)):
        return "<<" + ", ".join(tla_val(x) for x in v) + ">>"
    if isinstance(v, (set, frozenset)):
        return "{" + ", ".join(sorted(tla_val(x) for x in v)) + "}"
    if isinstance(v, dict):
        if not v:
            return "<<>>"
        return "[" + ", ".join("%s |-> %s" % (k, tla_val(x)) for k, x in sorted(v.items())) + "]"
    raise TypeError(v)


# ---------------------------------------------------------------------------
# evidence

def write_evidence(ctx, level="model_checking", extra=None, rule=None):
    cov = {
        "states": ctx.states,
        "transitions": ctx.transitions,
        "traces_validated_against_impl": ctx.traces,
        "evaluations": ctx.evaluations,
        "distinct_nontrivial": len(ctx.distinct) if isinstance(ctx.distinct, (set, dict)) else int(ctx.distinct),
        "rule": rule or "",
        "samples": ctx.samples[:8] or ["(none)"],
        "known_findings_reproduced": [k for k, _ in ctx.known_hits],
    }
    cov.update(ctx.notes)
    cov.update(extra or {})
    ev = {
        "property_id": ctx.pid,
        "tier": ctx.tier,
        "seed": ctx.seed,
        "level": level,
        "coverage": cov,
        "assumptions": ctx.assumptions,
        "wall_s": round(time.time() - ctx.t0, 2),
        "violations": len(ctx.violations),
    }
    os.makedirs(os.path.join(OUT, "evidence"), exist_ok=True)
    path = os.path.join(OUT, "evidence", ctx.pid + ".json")
    tmp = path + ".tmp"
    with open(tmp, "w") as f:
        json.dump(ev, f, indent=1, default=str, sort_keys=True)
    os.replace(tmp, path)
    return path


def canon(x):
    """Canonical comparable form of a JSON-ish value: empty list == empty dict,
    sets -> sorted lists."""
    if isinstance(x, dict):
        if not x:
            return ()
        return tuple(sorted((str(k), canon(v)) for k, v in x.items()))
    if isinstance(x, (list, tuple)):
        return tuple(canon(v) for v in x)
    if isinstance(x, (set, frozenset)):
        return ("$set",) + tuple(sorted((canon(v) for v in x), key=repr))
    return x
