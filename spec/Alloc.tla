-------------------------------- MODULE Alloc --------------------------------
(* The emulated allocators (property C48): process heap (heap.alloc, HeapAlloc,    *)
(* VirtualAlloc, malloc), Linux mmap and brk.  The specification does not say      *)
(* WHERE an allocator places a region - any address is allowed - only what every   *)
(* returned region must satisfy: it is mapped for its whole size, it overlaps no   *)
(* other live allocation and its address differs from every live one, zero-sized   *)
(* requests included (an empty allocation occupies its own address).               *)
EXTENDS Integers, Sequences, FiniteSets, TLC

(* FALSE: the property as stated.  TRUE additionally admits the recorded deviation of LinuxEnvironment.brk ("Alloc missing and   *)
(* override"): moving the break over a region somebody else mapped inside the brk area absorbs that region into the data         *)
(* segment instead of failing - used ONLY to re-validate histories the strict specification rejected, to tell this known         *)
(* finding from any other violation.                                                                                             *)
CONSTANT BrkAbsorbs

VARIABLES live,      \* set of [a |-> address, n |-> size, k |-> kind of request] live allocations
          pages,     \* sequence of [base, size]: the emulator's mapped pages after the last call
          ret
vars == <<live, pages, ret>>

Init == live = {} /\ pages = <<>> /\ ret = "none"

Mapped(pg, x) == \E i \in 1..Len(pg) : pg[i].base <= x /\ x < pg[i].base + pg[i].size
(* [a, a+n) is covered iff its first byte is mapped and so is every page end that falls inside it *)
Covered(pg, a, n) ==
  n = 0 \/ \A x \in {a} \cup {e \in {pg[i].base + pg[i].size : i \in 1..Len(pg)} : a < e /\ e < a + n} : Mapped(pg, x)
Span(r) == IF r.n = 0 THEN 1 ELSE r.n                 \* an empty allocation still occupies its address
Overlap(r, s) == r.a < s.a + Span(s) /\ s.a < r.a + Span(r)

(* the allocator returned address a for a request of n bytes; pg are the mapped pages after the call *)
Alloc(kind, n, a, pg) ==
  LET r == [a |-> a, n |-> n, k |-> kind] IN
  /\ Covered(pg, a, n)                                 \* a mapped region of at least the requested size
  /\ \/ \A s \in live : ~Overlap(r, s)                 \* overlapping no live allocation, at a fresh address
     \/ BrkAbsorbs /\ kind = "brk" /\ \A s \in live : Overlap(r, s) => s.k # "brk"
  /\ live' = live \cup {r}
  /\ pages' = pg
  /\ ret' = "ok"

Do(o, r, pg) == Alloc(o.kind, o.n, r, pg)
NoOverlap == \A r, s \in live : r # s => ~Overlap(r, s)
AllMapped == \A r \in live : Covered(pages, r.a, r.n)
Matches(j) == TRUE
=============================================================================
