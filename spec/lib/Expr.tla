--------------------------------- MODULE Expr ---------------------------------
(* miasm IR expressions as JSON-shaped records (see harness/exprjson.py) and their *)
(* meaning over BV.tla bit-vectors.                                                *)
(*   [k |-> "int",  w, v]          v: little-endian byte list                      *)
(*   [k |-> "id",   w, n]          identifier (or location) named n                *)
(*   [k |-> "mem",  w, p]          memory read of w bits at pointer expression p   *)
(*   [k |-> "op",   w, op, a]      operator; extension ops are normalised to       *)
(*                                 "zeroExt"/"signExt" (target width = w)          *)
(*   [k |-> "slice", w, a, lo, hi]  bits lo..hi-1 of a                              *)
(*   [k |-> "compose", w, a]       concatenation, first argument least significant *)
(*   [k |-> "cond", w, c, t, f]    t if c # 0 else f                                *)
(* An environment gives identifier values (byte lists) and a memory that is a      *)
(* fixed function of the address:  byte(A) = (A[0..7] + 31*A[8..15] + seed) % 256  *)
(* so that every address is readable and the python side can mirror it exactly;    *)
(* env.wr lists the bytes written since (IRMachine.tla), empty for pure evaluation. *)
(* Division by zero is undefined: evaluation then yields ok = FALSE.               *)
EXTENDS BV, TLC

Val(v) == [ok |-> TRUE, unk |-> FALSE, v |-> v]
Undef == [ok |-> FALSE, unk |-> FALSE, v |-> <<>>]
Unknown == [ok |-> FALSE, unk |-> TRUE, v |-> <<>>]       \* operator outside this specification

MemByte(A, seed) ==
  LET n0 == ToNat(SubSeq(ZeroExt(A, 16), 1, 8)) n1 == ToNat(SubSeq(ZeroExt(A, 16), 9, 16))
  IN FromNat((n0 + 31 * n1 + seed) % 256, 8)
(* bytes written since the initial state: env.wr is a sequence of <<64-bit address, byte>> pairs, most recent first *)
RECURSIVE WrLookup(_, _, _)
WrLookup(A64, wr, i) == IF i > Len(wr) THEN <<>> ELSE IF wr[i][1] = A64 THEN wr[i][2] ELSE WrLookup(A64, wr, i + 1)
MemByteE(A, env) == LET r == WrLookup(ZeroExt(A, 64), env.wr, 1) IN IF r # <<>> THEN r ELSE MemByte(A, env.seed)
RECURSIVE MemBytes(_, _, _)
MemBytes(A, n, env) == IF n = 0 THEN <<>>
                       ELSE <<MemByteE(A, env)>> \o MemBytes(Add(A, One(Len(A))), n - 1, env)
RECURSIVE RevSeq(_)
RevSeq(q) == IF q = <<>> THEN <<>> ELSE RevSeq(Tail(q)) \o <<Head(q)>>
MemRead(A, w, env) ==
  LET bs == MemBytes(A, w \div 8, env)
  IN Concat(IF env.endian = "big" THEN RevSeq(bs) ELSE bs)

B1(b) == <<B2I(b)>>
Assoc == {"+", "*", "&", "|", "^"}
RECURSIVE Fold(_, _, _, _)
Fold(op, vs, i, acc) ==
  IF i > Len(vs) THEN acc
  ELSE Fold(op, vs, i + 1, CASE op = "+" -> Add(acc, vs[i]) [] op = "*" -> Mul(acc, vs[i])
                             [] op = "&" -> BAnd(acc, vs[i]) [] op = "|" -> BOr(acc, vs[i])
                             [] op = "^" -> BXor(acc, vs[i]))
Div0(vs) == Len(vs) = 2 /\ IsZero(vs[2])

Apply(op, vs, w) ==
  LET x == vs[1] y == IF Len(vs) >= 2 THEN vs[2] ELSE <<>> z == IF Len(vs) >= 3 THEN vs[3] ELSE <<0>> IN
  CASE op \in Assoc -> Val(Fold(op, vs, 2, x))
    [] op = "-" -> IF Len(vs) = 1 THEN Val(Neg(x)) ELSE Val(Sub(x, y))
    [] op = "<<" -> Val(Shl(x, y)) [] op = ">>" -> Val(Lshr(x, y)) [] op = "a>>" -> Val(Ashr(x, y))
    [] op = "<<<" -> Val(Rol(x, y)) [] op = ">>>" -> Val(Ror(x, y))
    [] op \in {"udiv", "/"} -> IF Div0(vs) THEN Undef ELSE Val(UDiv(x, y))
    [] op \in {"umod", "%"} -> IF Div0(vs) THEN Undef ELSE Val(UMod(x, y))
    [] op = "sdiv" -> IF Div0(vs) THEN Undef ELSE Val(SDiv(x, y))
    [] op = "smod" -> IF Div0(vs) THEN Undef ELSE Val(SMod(x, y))
    [] op = "parity" -> Val(Parity(x))
    [] op = "cntleadzeros" -> Val(Clz(x)) [] op = "cnttrailzeros" -> Val(Ctz(x))
    [] op = "zeroExt" -> Val(ZeroExt(x, w)) [] op = "signExt" -> Val(SignExt(x, w))
    [] op = "==" -> Val(B1(x = y))
    [] op = "<u" -> Val(B1(Ult(x, y))) [] op = "<=u" -> Val(B1(Ule(x, y)))
    [] op = "<s" -> Val(B1(Slt(x, y))) [] op = "<=s" -> Val(B1(Sle(x, y)))
    [] op = "FLAG_EQ" -> Val(B1(IsZero(x)))
    [] op = "FLAG_EQ_AND" -> Val(B1(IsZero(BAnd(x, y))))
    [] op = "FLAG_EQ_CMP" -> Val(B1(x = y))
    [] op = "FLAG_SIGN_SUB" -> Val(<<Msb(Sub(x, y))>>)
    [] op = "FLAG_SIGN_ADD" -> Val(<<Msb(Add(x, y))>>)
    [] op = "FLAG_ADD_CF" -> Val(<<AddCF(x, y, 0)>>) [] op = "FLAG_ADD_OF" -> Val(<<AddOF(x, y, 0)>>)
    [] op = "FLAG_SUB_CF" -> Val(<<SubCF(x, y, 0)>>) [] op = "FLAG_SUB_OF" -> Val(<<SubOF(x, y, 0)>>)
    [] op = "FLAG_ADDWC_CF" -> Val(<<AddCF(x, y, z[1])>>) [] op = "FLAG_ADDWC_OF" -> Val(<<AddOF(x, y, z[1])>>)
    [] op = "FLAG_SUBWC_CF" -> Val(<<SubCF(x, y, z[1])>>) [] op = "FLAG_SUBWC_OF" -> Val(<<SubOF(x, y, z[1])>>)
    [] op = "FLAG_EQ_ADDWC" -> Val(B1(IsZero(AddWC(x, y, z[1]))))
    [] op = "FLAG_EQ_SUBWC" -> Val(B1(IsZero(SubWC(x, y, z[1]))))
    [] op = "FLAG_SIGN_ADDWC" -> Val(<<Msb(AddWC(x, y, z[1]))>>)
    [] op = "FLAG_SIGN_SUBWC" -> Val(<<Msb(SubWC(x, y, z[1]))>>)
    [] op = "CC_U<=" -> Val(BOr(x, y)) [] op = "CC_U>=" -> Val(BNot(x))
    [] op = "CC_S<" -> Val(BXor(x, y)) [] op = "CC_S>" -> Val(BNot(BOr(z, BXor(x, y))))
    [] op = "CC_S<=" -> Val(BOr(z, BXor(x, y))) [] op = "CC_S>=" -> Val(BNot(BXor(x, y)))
    [] op = "CC_U>" -> Val(BNot(BOr(x, y))) [] op = "CC_U<" -> Val(x)
    [] op = "CC_NEG" -> Val(x) [] op = "CC_EQ" -> Val(x) [] op = "CC_NE" -> Val(BNot(x)) [] op = "CC_POS" -> Val(BNot(x))
    [] OTHER -> Unknown

RECURSIVE Eval(_, _)
Eval(e, env) ==
  CASE e.k = "int" -> Val(FromBytes(e.v, e.w))
    [] e.k = "id" -> Val(FromBytes(env.ids[e.n], e.w))
    [] e.k = "mem" -> LET p == Eval(e.p, env) IN IF p.ok THEN Val(MemRead(p.v, e.w, env)) ELSE p
    [] e.k = "slice" -> LET a == Eval(e.a, env) IN IF a.ok THEN Val(Slice(a.v, e.lo, e.hi)) ELSE a
    [] e.k = "compose" ->
         LET vs == [i \in 1..Len(e.a) |-> Eval(e.a[i], env)] IN
         IF \E i \in 1..Len(vs) : vs[i].unk THEN Unknown
         ELSE IF \E i \in 1..Len(vs) : ~vs[i].ok THEN Undef
         ELSE Val(Concat([i \in 1..Len(vs) |-> vs[i].v]))
    [] e.k = "cond" ->
         LET c == Eval(e.c, env) IN
         IF ~c.ok THEN c ELSE IF IsZero(c.v) THEN Eval(e.f, env) ELSE Eval(e.t, env)
    [] e.k = "op" ->
         LET vs == [i \in 1..Len(e.a) |-> Eval(e.a[i], env)] IN
         IF \E i \in 1..Len(vs) : vs[i].unk THEN Unknown
         ELSE IF \E i \in 1..Len(vs) : ~vs[i].ok THEN Undef
         ELSE Apply(e.op, [i \in 1..Len(vs) |-> vs[i].v], e.w)

(* width rule: the width of a node as determined by its components *)
OneBitOps == {"==", "<u", "<=u", "<s", "<=s", "parity", "FLAG_EQ", "FLAG_EQ_AND", "FLAG_EQ_CMP", "FLAG_SIGN_SUB",
              "FLAG_SIGN_ADD", "FLAG_ADD_CF", "FLAG_ADD_OF", "FLAG_SUB_CF", "FLAG_SUB_OF", "FLAG_ADDWC_CF",
              "FLAG_ADDWC_OF", "FLAG_SUBWC_CF", "FLAG_SUBWC_OF", "FLAG_EQ_ADDWC", "FLAG_EQ_SUBWC",
              "FLAG_SIGN_ADDWC", "FLAG_SIGN_SUBWC"}
RECURSIVE SumW(_, _)
SumW(q, i) == IF i > Len(q) THEN 0 ELSE q[i].w + SumW(q, i + 1)
RECURSIVE WellSized(_)
WellSized(e) ==
  CASE e.k \in {"int", "id"} -> e.w > 0
    [] e.k = "mem" -> WellSized(e.p) /\ e.w % 8 = 0
    [] e.k = "slice" -> WellSized(e.a) /\ e.lo < e.hi /\ e.hi <= e.a.w /\ e.w = e.hi - e.lo
    [] e.k = "compose" -> (\A i \in 1..Len(e.a) : WellSized(e.a[i])) /\ e.w = SumW(e.a, 1)
    [] e.k = "cond" -> WellSized(e.c) /\ WellSized(e.t) /\ WellSized(e.f) /\ e.t.w = e.w /\ e.f.w = e.w
    [] e.k = "op" -> /\ \A i \in 1..Len(e.a) : WellSized(e.a[i])
                     /\ IF e.op \in OneBitOps THEN e.w = 1
                        ELSE IF e.op \in {"zeroExt", "signExt"} THEN e.w >= e.a[1].w
                        ELSE e.w = e.a[1].w
=============================================================================
