"""miasm IR (IRBlock / IRCFG) <-> JSON programs understood by spec/lib/IRMachine.tla, IR environments, generators."""
from . import exprjson as X


def loc_name(loc_key):
    return "loc_%d" % loc_key.key


def block_json(irblock):
    abs_ = []
    for ab in irblock:
        abs_.append([{"d": X.to_json(d), "s": X.to_json(s)} for d, s in ab.items()])
    return {"loc": loc_name(irblock.loc_key), "abs": abs_}


def ids_in_blocks(blocks):
    """name -> size of every identifier / location appearing in the blocks (dst, src, pointers)"""
    out = {}
    for b in blocks:
        for ab in b:
            for d, s in ab.items():
                for e in (d, s):
                    out.update(X.ids_of(e))
        out[loc_name(b.loc_key)] = None
    return out


def loc_value(name, w):
    # every location gets a distinct concrete value that no data value is likely to take
    k = int(name.split("_")[1])
    return (0x5A000000 + 0x10 * k) & ((1 << w) - 1)


def ir_env(sizes, values, seed, endian="little"):
    """environment JSON with every identifier present (locations get their fixed values)"""
    ids = {}
    for nm, w in sizes.items():
        if nm.startswith("loc_") and nm[4:].isdigit():
            ids[nm] = X.ibytes(loc_value(nm, w), w)
        else:
            ids[nm] = X.ibytes(values.get(nm, 0), w)
    ids["__none"] = [0]
    return {"ids": ids, "seed": seed, "endian": endian, "wr": []}
