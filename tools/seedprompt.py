#!/usr/bin/env python3
"""print the prompt given to an independent sub-agent that seeds a property-breaking change"""
import json, sys
pid = sys.argv[1]
for l in open('/verif/properties.jsonl'):
    p = json.loads(l)
    if p['id'] == pid:
        break
print(f"""You are testing how robust a verification effort is. You work ONLY inside the scratch git worktree /tmp/wt_{pid} (a checkout of the Python reverse-engineering framework miasm, cea-sec/miasm) and write deliverables to /tmp/seed_{pid}/. Do NOT read, list or touch /verif or /repo, and do not look at other /tmp/wt_* or /tmp/seed_* directories.

Property of miasm that should always hold ("{p['title']}"):
{p['statement']}
(Quantified over: {p['quantifier']['text']})
Relevant code: {json.dumps(p['anchors'])[:1200]}

Task: produce TWO different, independent, realistic changes (bugs) to miasm's source in /tmp/wt_{pid} that each BREAK this property while the code still imports/compiles and the existing test suite still passes. The existing test suite is: cd /tmp/wt_{pid} && /venv/bin/python -m pytest -q -p no:cacheprovider test/arch/mep   (280 tests, all must still pass with your change). Use /venv/bin/python with PYTHONPATH=/tmp/wt_{pid} to run code against the worktree (if you change a .c/.h file, rebuild there with: cd /tmp/wt_{pid} && /venv/bin/python setup.py build_ext --inplace).

Requirements for each change:
- It must look like a plausible maintenance slip or refactoring error (off-by-one, wrong operand order, missed case, dropped cache invalidation, wrong mask/width, swapped condition ...), small (a few lines), in the code behind the property (not in tests, not in setup files).
- It must need something SPECIFIC to manifest: a particular multi-step sequence of operations, an unusual/boundary input, a particular width or configuration, a fault at a particular point, or two cooperating sites that each look fine alone. Do NOT make a change that every ordinary use would expose at once (e.g. do not break the common path).
- The two changes must be in different functions/mechanisms.

For each change N in {{1, 2}} deliver in /tmp/seed_{pid}/:
- patchN.diff : the change as a unified diff produced by `git -C /tmp/wt_{pid} diff` (must apply with `git apply` to a clean checkout of the same commit). Produce each diff against the CLEAN tree (revert change 1 with `git -C /tmp/wt_{pid} checkout -- .` before making change 2).
- demoN.py : a small standalone program that exits 0 on the unchanged code and exits non-zero (assertion failure) with the change applied; it is run as `PYTHONPATH=<tree> /venv/bin/python demoN.py` so it must import miasm from PYTHONPATH and not hard-code /tmp/wt_{pid}.
- notesN.txt : 3-6 lines: what was changed, and exactly what is needed for it to manifest.
Verify yourself: demo passes on clean tree, fails with the patch, and the 280 tests pass with the patch. Leave the worktree clean (git checkout -- .) when you finish. No network is available. Final answer: a short summary of the two changes.""")
