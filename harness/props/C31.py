"""C31 recursive disassembly yields a well-formed control-flow graph: Disasm.tla states well-formedness against the single-instruction
decoding of the buffer; the blocks dis_multiblock returns (and bbl_simplifier's merged blocks) are judged by TLC."""
from .. import core
from .. import exprjson as X
from .. import asmgen

BASE = 0x1000


def hand_buffers():
    """x86-32 fragments: a jump into the middle of an already disassembled block, conditional branches both ways, calls, INT, a branch
    into the bytes of a longer instruction (overlapping decodings), loops, undecodable and out-of-buffer targets"""
    return [
        bytes.fromhex("40 41 42 75 fb 43 eb f8 c3".replace(" ", "")),                 # jnz back into the middle of the first block
        bytes.fromhex("40 41 42 43 74 02 eb f8 75 f7 c3".replace(" ", "")),           # split of a block that already has two successors
        bytes.fromhex("b8 01 00 00 00 cd 80 40 c3".replace(" ", "")),                 # int 0x80 then code
        bytes.fromhex("e8 03 00 00 00 40 c3 90 41 c3".replace(" ", "")),              # call forward
        bytes.fromhex("eb 01 b8 40 41 c3".replace(" ", "")),                          # jump into the middle of a mov imm32
        bytes.fromhex("74 05 b8 90 90 90 c3 eb fa".replace(" ", "")),                 # overlapping decodings reached both ways
        bytes.fromhex("40 eb fd".replace(" ", "")),                                   # infinite loop
        bytes.fromhex("40 e2 fd 41 c3".replace(" ", "")),                             # loop instruction
        bytes.fromhex("0f 0b 40 c3".replace(" ", "")),                                # ud2
        bytes.fromhex("40 eb 20".replace(" ", "")),                                   # target outside the buffer
        bytes.fromhex("40 74 00 41 74 00 42 74 00 43 c3".replace(" ", "")),           # branches to the next instruction
        bytes.fromhex("0f 05 40 0f 34 41 cc 42 c3".replace(" ", "")),                 # syscall / sysenter / int3
        bytes.fromhex("ff e0 40 c3".replace(" ", "")),                                # indirect jump
        bytes.fromhex("ff 15 00 20 00 00 40 c3".replace(" ", "")),                    # indirect call
    ]


def decode_all(machine, code):
    from miasm.core.bin_stream import bin_stream_str
    from miasm.core.locationdb import LocationDB
    bs = bin_stream_str(code, base_address=BASE)
    dec = []
    for o in range(len(code)):
        try:
            ins = machine.mn.dis(bs, 32, BASE + o)
            if ins is None or BASE + o + ins.l > BASE + len(code):
                raise ValueError("beyond")
            db = LocationDB()
            dsts = []
            if ins.dstflow():
                ins.dstflow2label(db)
                for d in ins.getdstflow(db):
                    if d.is_loc():
                        dsts.append(db.get_location_offset(d.loc_key))
            dec.append({"ok": True, "len": ins.l, "text": ins.name + ":" + bytes(ins.b).hex(), "bf": bool(ins.breakflow()), "sf": bool(ins.splitflow()),
                        "call": bool(ins.is_subcall()), "dsts": dsts})
        except Exception:
            dec.append({"ok": False, "len": 1, "text": "", "bf": False, "sf": False, "call": False, "dsts": []})
    return dec


def blocks_json(cfg, loc_db):
    from miasm.core.asmblock import AsmBlockBad, AsmConstraint
    out = []
    for b in cfg.blocks:
        start = loc_db.get_location_offset(b.loc_key)
        bad = isinstance(b, AsmBlockBad)
        bto = [] if bad else [[loc_db.get_location_offset(c.loc_key), "next" if c.c_t == AsmConstraint.c_next else "to"] for c in b.bto]
        succ = [loc_db.get_location_offset(s) for s in cfg.successors(b.loc_key)]
        out.append({"start": start, "bad": bad, "ins": [] if bad else [l.offset for l in b.lines],
                    "text": [] if bad else [l.name + ":" + bytes(l.b).hex() for l in b.lines], "bto": bto, "succ": succ})
    return out


def one(machine, code, start, cfgd):
    from miasm.core.bin_stream import bin_stream_str
    from miasm.core.locationdb import LocationDB
    from miasm.core.asmblock import bbl_simplifier
    it = {"base": BASE, "dec": decode_all(machine, code), "cfg": cfgd, "blocks": [], "merged": [], "raised": ""}

    def engine():
        loc_db = LocationDB()
        mdis = machine.dis_engine(bin_stream_str(code, base_address=BASE), loc_db=loc_db)
        mdis.dont_dis = list(cfgd["dont"])
        mdis.split_dis = list(cfgd["split"])
        mdis.lines_wd = cfgd["lines"] or None
        mdis.blocs_wd = cfgd["blocs"] or None
        mdis.follow_call = cfgd["fcall"]
        mdis.dont_dis_nulstart_bloc = False
        return loc_db, mdis
    try:
        with core.deadline(20):
            loc_db, mdis = engine()
            cfg = mdis.dis_multiblock(start)
            it["blocks"] = blocks_json(cfg, loc_db)
            loc_db2, mdis2 = engine()
            cfg2 = mdis2.dis_multiblock(start)
            cfg2 = bbl_simplifier.apply_simp(cfg2) if hasattr(bbl_simplifier, "apply_simp") else bbl_simplifier(cfg2)
            it["merged"] = blocks_json(cfg2, loc_db2)
    except Exception as ex:
        it["raised"] = type(ex).__name__ + ":" + str(ex)[:120].replace('"', "'")
    return it


def run(ctx):
    import logging
    from miasm.analysis.machine import Machine
    logging.getLogger("asmblock").setLevel(logging.CRITICAL)
    q = ctx.quick
    rng = ctx.rng
    machine = Machine("x86_32")
    bufs = [("hand", b) for b in hand_buffers()]
    for n in range(25 if q else 300):
        gen = asmgen.AsmGen(rng, loops=True)
        src = gen.function(nseg=rng.randrange(1, 4))
        if rng.random() < 0.4:
            src = src.replace("    RET\n", "    INT 0x80\n    RET\n", 1)
        try:
            from miasm.core.locationdb import LocationDB
            from miasm.core import parse_asm
            from miasm.core.asmblock import asm_resolve_final
            from miasm.core.interval import interval
            loc_db = LocationDB()
            acfg = parse_asm.parse_txt(machine.mn, 32, src, loc_db)
            loc_db.set_location_offset(loc_db.get_name_location("main"), BASE)
            patches = asm_resolve_final(machine.mn, acfg, dst_interval=interval([(BASE, BASE + 0x400)]))
            end = max(o + len(b) for o, b in patches.items())
            code = bytearray(end - BASE)
            for o, b in patches.items():
                code[o - BASE:o - BASE + len(b)] = b
            if len(code) <= 140:
                bufs.append(("assembled", bytes(code)))
        except Exception:
            continue
    for n in range(25 if q else 300):
        # random bytes salted with short branches
        code = bytearray(rng.getrandbits(8) for _ in range(rng.randrange(8, 40)))
        for _ in range(rng.randrange(0, 4)):
            p = rng.randrange(0, len(code) - 1)
            code[p:p + 2] = bytes([rng.choice([0xeb, 0x74, 0x75, 0xe2]), rng.randrange(-12, 12) & 0xff])
        bufs.append(("random", bytes(code)))
    items, meta = [], []
    for kind, code in bufs:
        n = len(code)
        cfgs = [{"dont": [], "split": [], "lines": 0, "blocs": 0, "fcall": False}]
        for _ in range(3 if q else 5):
            cfgs.append({"dont": sorted(set(BASE + rng.randrange(0, n) for _ in range(rng.randrange(0, 3)))),
                         "split": sorted(set(BASE + rng.randrange(0, n) for _ in range(rng.randrange(0, 3)))),
                         "lines": rng.choice([0, 0, 1, 2, 3, 5]), "blocs": rng.choice([0, 0, 1, 2, 4]), "fcall": rng.random() < 0.5})
        for c in cfgs:
            for start in ([BASE] if kind != "random" else [BASE, BASE + rng.randrange(0, n)]):
                items.append(one(machine, code, start, c))
                meta.append((kind, code.hex(), start, c))
    verdicts = X.judge(ctx, items, label="c31", module="DisasmJudge", chunk=150)
    counts = {}
    for v, mt, it in zip(verdicts, meta, items):
        key = mt[0] + ":" + ("ok" if v == "ok" else ":".join(v.split(":")[:1] + v.split(":")[2:3]))
        counts[key] = counts.get(key, 0) + 1
        if "pending-destination-dropped" in v and "merge-drops-branch-with-undisassembled-destination" in ctx.findings:
            ctx.known("merge-drops-branch-with-undisassembled-destination", "%s start %#x %r: %s" % (mt[1], mt[2], mt[3], v))
            continue
        if v != "ok":
            ctx.violation("disassembly-not-well-formed", {"buffer": mt[1], "kind": mt[0], "start": hex(mt[2]), "configuration": mt[3], "verdict": v,
                                                          "blocks": [(hex(b["start"]), [hex(o) for o in b["ins"]], b["bto"], [hex(s) for s in b["succ"]]) for b in it["blocks"]]})
    ctx.traces += len(items)
    ctx.evaluations += sum(len(i["blocks"]) + len(i["merged"]) for i in items)
    ctx.distinct = set((m[1], m[2], str(m[3])) for m in meta)
    for k in (0, len(meta) // 2, len(meta) - 1):
        ctx.sample({"buffer": meta[k][1], "start": hex(meta[k][2]), "configuration": meta[k][3], "blocks": len(items[k]["blocks"]), "tlc_verdict": verdicts[k]})
    ctx.notes["verdicts"] = counts
    ctx.assumptions += ["x86-32; buffers: hand-written fragments (jumps into already disassembled blocks, overlapping decodings, INT / SYSCALL, "
                        "calls, loops, targets outside the buffer), assembled random structured functions, random bytes salted with short "
                        "branches; every offset of the buffer is decoded on its own for the reference",
                        "the block-count limit is judged up to the continuation blocks splitting creates"]
    return ("each buffer is disassembled with dis_multiblock under the default configuration and random ones (forbidden addresses, forced "
            "splits, block-length and block-count limits, follow_call) and merged with bbl_simplifier; TLC (Disasm.tla) checks instruction "
            "identity and consecutiveness against the single decoding, no flow break inside a block, no shared instruction, branch "
            "targets starting blocks, successors = flow destinations + fall-through (constraints and graph edges), the limits, and that "
            "every merged block is a chain of original blocks minus only the linking jumps")
