"""C27 graph algorithms match their mathematical definitions: Graph.tla (path-quantified definitions) vs DiGraph."""
import json

from .. import core, sm


def fmap(x):
    """TLC prints a function with domain 1..n as an array, any other as an object with string keys"""
    if isinstance(x, list):
        return {i + 1: v for i, v in enumerate(x)}
    return {int(k): v for k, v in x.items()}


def sset(x):
    return sorted(x)


def pairs(x):
    return sorted([list(p) for p in x])


def canonical(a):
    """schema-aware normal form of an Analysis record (from TLC's JSON or from the adapter)"""
    out = {"nodes": sset(a["nodes"]), "edges": pairs(a["edges"]), "heads": sset(a["heads"]), "leaves": sset(a["leaves"]),
           "hasloop": bool(a["hasloop"]),
           "scc": sorted(sset(c) for c in a["scc"]), "wcc": sorted(sset(c) for c in a["wcc"])}
    for f in ("sons", "parents"):
        out[f] = {h: sset(v) for h, v in fmap(a[f]).items()}
    for f in ("dom", "pdom"):
        out[f] = {h: {n: sset(s) for n, s in fmap(v).items()} for h, v in fmap(a[f]).items()}
    for f in ("idom", "ipdom"):
        out[f] = {h: dict(fmap(v)) for h, v in fmap(a[f]).items()}
    out["domtree"] = {h: pairs(v) for h, v in fmap(a["domtree"]).items()}
    out["frontier"] = {h: {x: sset(s) for x, s in fmap(v).items() if s} for h, v in fmap(a["frontier"]).items()}
    out["backedges"] = {h: pairs(v) for h, v in fmap(a["backedges"]).items()}
    out["loops"] = {h: sorted([[list(l[0]), sset(l[1])] for l in v]) for h, v in fmap(a["loops"]).items()}
    out["paths"] = {s: {d: sorted(list(p) for p in ps) for d, ps in fmap(v).items()} for s, v in fmap(a["paths"]).items()}
    return out


class Norm(object):
    """adapter projection compared with TLC's JSON through the canonical form"""

    def __init__(self, analysis):
        self.c = canonical(analysis)

    def __eq__(self, other):
        try:
            return canonical(other) == self.c
        except Exception:
            return False

    def __ne__(self, other):
        return not self == other

    def __str__(self):
        return json.dumps(self.c, sort_keys=True)


class TooLong(Exception):
    pass


def _alarm(signum, frame):
    raise TooLong("graph analysis did not finish within 10 s")


def analyse(g):
    """every algorithm of DiGraph on g, for every head / leaf (graphs have at most 6 nodes: 10 s means non-termination)"""
    import signal
    signal.signal(signal.SIGALRM, _alarm)
    signal.alarm(10)
    try:
        return _analyse(g)
    finally:
        signal.alarm(0)


def _analyse(g):
    V = sorted(g.nodes())
    a = {"nodes": V, "edges": [list(e) for e in g.edges()], "heads": list(g.heads()), "leaves": list(g.leaves()),
         "hasloop": g.has_loop(),
         "scc": [set(c) for c in g.compute_strongly_connected_components()],
         "wcc": [set(c) for c in g.compute_weakly_connected_components()],
         "sons": {}, "parents": {}, "dom": {}, "pdom": {}, "idom": {}, "ipdom": {}, "domtree": {}, "frontier": {},
         "backedges": {}, "loops": {}, "paths": {}}
    for h in V:
        a["sons"][str(h)] = set(g.reachable_sons(h))
        a["parents"][str(h)] = set(g.reachable_parents(h))
        a["dom"][str(h)] = {str(n): set(s) for n, s in g.compute_dominators(h).items()}
        a["pdom"][str(h)] = {str(n): set(s) for n, s in g.compute_postdominators(h).items()}
        a["idom"][str(h)] = {str(n): d for n, d in g.compute_immediate_dominators(h).items()}
        a["ipdom"][str(h)] = {str(n): d for n, d in g.compute_immediate_postdominators(h).items()}
        a["domtree"][str(h)] = [list(e) for e in g.compute_dominator_tree(h).edges()]
        a["frontier"][str(h)] = {str(n): set(s) for n, s in g.compute_dominance_frontier(h).items()}
        a["backedges"][str(h)] = [list(e) for e in g.compute_back_edges(h)]
        a["loops"][str(h)] = [[list(e), set(b)] for e, b in g.compute_natural_loops(h)]
        a["paths"][str(h)] = {}
        for d in V:
            p1 = sorted(g.find_path(h, d))
            p2 = sorted(g.find_path_from_src(h, d))
            if p1 != p2:
                raise AssertionError("find_path %r and find_path_from_src %r differ for %s->%s" % (p1, p2, h, d))
            a["paths"][str(h)][str(d)] = p1
    return a


class Adapter(object):
    def new(self, acfg):
        from miasm.core.graph import DiGraph
        return DiGraph()

    def apply(self, g, o):
        op = o["op"]
        if op == "AddNode":
            return str(bool(g.add_node(o["n"])))
        if op == "AddEdge":
            g.add_edge(o["a"], o["b"])
        elif op == "DelEdge":
            g.del_edge(o["a"], o["b"])
        elif op == "DelNode":
            g.del_node(o["n"])
        return "ok"

    def project(self, g):
        return Norm(analyse(g))


ENUM_TMPL = """---- MODULE GraphEnum ----
EXTENDS Graph, Json
VARIABLES lo, hi
EInit == lo = %(lo)d /\\ hi = %(hi)d /\\ nodes = {} /\\ edges = {} /\\ ret = "none"
ENext == /\\ lo < hi /\\ UNCHANGED <<nodes, edges, ret>>
         /\\ LET mid == (lo + hi) \\div 2 IN
            \\/ (lo' = lo /\\ hi' = mid)
            \\/ (lo' = mid + 1 /\\ hi' = hi)
Sel == %(sel)s
Report == lo < hi \\/ PrintT("G " \\o ToString(Sel[lo]) \\o " " \\o ToJson(Analysis(1..N, EdgesOfNumber(Sel[lo]))))
====
"""


def enumerate_graphs(ctx, n, numbers, label):
    """TLC evaluates the definitions on the graphs numbered `numbers` over n nodes (in parallel); each result is compared
    with DiGraph"""
    from miasm.core.graph import DiGraph
    numbers = list(numbers)
    CH = 4000
    bad = 0
    for c in range(0, len(numbers), CH):
        part = numbers[c:c + CH]
        text = ENUM_TMPL % dict(lo=1, hi=len(part), sel="<<" + ", ".join(str(k) for k in part) + ">>")
        cfg = "INIT EInit\nNEXT ENext\nINVARIANT Report\nCHECK_DEADLOCK FALSE\nCONSTANT N = %d\n" % n
        got = {}

        def on_print(s):
            if s.startswith("G "):
                _, k, js = s.split(" ", 2)
                got[int(k)] = js
        res = core.run_tlc(ctx, "GraphEnum", text, cfg, workers=core.NCPU, on_print=on_print, timeout=3000)
        ctx.add_tlc(res)
        if len(got) != len(set(part)):
            raise core.MachineryError("GraphEnum: %d results for %d graphs\n%s" % (len(got), len(part), "\n".join(res.tail[-20:])))
        for k, js in got.items():
            g = DiGraph()
            for v in range(1, n + 1):
                g.add_node(v)
            es = []
            for a in range(1, n + 1):
                for b in range(1, n + 1):
                    if (k >> ((a - 1) * n + (b - 1))) & 1:
                        g.add_edge(a, b)
                        es.append([a, b])
            try:
                obs = canonical(analyse(g))
            except Exception as ex:
                obs = {"raised": type(ex).__name__ + ":" + str(ex)[:200]}
            exp = canonical(json.loads(js))
            ctx.traces += 1
            if obs != exp:
                bad += 1
                if "raised" in obs:
                    ctx.violation("graph-algorithm-raised", {"nodes": n, "edges": es, "observed": obs})
                else:
                    diff = [f for f in exp if obs.get(f) != exp[f]]
                    ctx.violation("graph-algorithm-mismatch", {"nodes": n, "edges": es, "fields": diff,
                                                               "expected": {f: exp[f] for f in diff[:3]},
                                                               "observed": {f: obs.get(f) for f in diff[:3]}})
    ctx.notes.setdefault("enumerations", []).append({"label": label, "nodes": n, "graphs": len(numbers), "mismatches": bad})
    return bad


def run(ctx):
    q = ctx.quick
    ad = Adapter()
    # the mutation API with the full analysis in the projection: every graph over 2 (quick) / 3 nodes reached through
    # add/del edge/node, every operation from it
    sm.gen_replay(ctx, "Graph", {"N": "3"}, 4 if q else 6, ad, invariants=("EdgesOnNodes", "DefsConsistent"), timeout=3000)
    # every graph over 3 nodes (512), a seeded sample (quick) or all (thorough) of the 65536 graphs over 4 nodes
    enumerate_graphs(ctx, 3, range(512), "all graphs on 3 nodes")
    if q:
        enumerate_graphs(ctx, 4, ctx.rng.sample(range(65536), 2500), "sample of graphs on 4 nodes")
    else:
        enumerate_graphs(ctx, 4, range(65536), "all graphs on 4 nodes")
    nums5 = [ctx.rng.getrandbits(25) & ctx.rng.getrandbits(25) for _ in range(300 if q else 6000)]
    enumerate_graphs(ctx, 5, nums5, "sparse random graphs on 5 nodes")
    ctx.assumptions += ["graphs with 5 nodes are sampled (2^25 graphs), 6+ nodes not explored",
                        "find_path / find_path_from_src with cycles_count = 0 (simple paths)"]
    return ("for every graph (all on <= 3 nodes; all 65536 on 4 nodes in thorough, a seeded sample in quick; sampled on 5 nodes) and "
            "every head / leaf: dominators, post-dominators, immediate (post-)dominators, dominator tree, dominance frontier, back "
            "edges, natural loops, SCC, WCC, reachable sons/parents, heads/leaves, cycle detection and simple-path enumeration "
            "computed by TLC from path-quantified definitions are compared with DiGraph; the mutation API is replayed state by state")
