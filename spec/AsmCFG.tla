-------------------------------- MODULE AsmCFG --------------------------------
(* miasm.core.asmblock.AsmCFG (property C30): the assembly control-flow graph     *)
(* keeps one edge per block constraint whose destination is present, labelled     *)
(* with the constraint's kind, and a pending set for absent destinations.         *)
(* A block carries at most one constraint per destination (well-formed blocks).   *)
EXTENDS Integers, Sequences, FiniteSets, TLC

CONSTANTS Loc,        \* location names
          Kind,       \* {"c_to", "c_next"}
          MaxCons,    \* max constraints per block in generated operations
          Others      \* sequence of foreign graphs: each a set of [l |-> loc, bto |-> set of <<dst,kind>>]

VARIABLES blk,    \* present block -> set of <<dst, kind>>
          edge,   \* set of <<src, dst, kind>>
          pend,   \* set of <<absent dst, waiter, kind>>
          nodes,  \* graph nodes
          dirty,  \* a block's constraints were edited behind the graph's back
          ret
vars == <<blk, edge, pend, nodes, dirty, ret>>

Present == DOMAIN blk
WellFormed(b) == \A p, q \in b : p[1] = q[1] => p = q
Btos == {b \in SUBSET (Loc \X Kind) : Cardinality(b) <= MaxCons /\ WellFormed(b)}

Init == /\ blk = <<>> /\ edge = {} /\ pend = {} /\ nodes = {} /\ dirty = FALSE /\ ret = "none"

G == [blk |-> blk, edge |-> edge, pend |-> pend, nodes |-> nodes]
HasEdge(g, s, d) == \E k \in Kind : <<s, d, k>> \in g.edge
Conflict(g, s, d, k) == \E k2 \in Kind \ {k} : <<s, d, k2>> \in g.edge
HasCons(b, d) == \E k \in Kind : <<d, k>> \in b

(* ---- pure versions of the mutators (used by the actions and by Merge) -------- *)
AddEdgeF(g, s, d, k) ==
  IF HasEdge(g, s, d) THEN g
  ELSE [g EXCEPT !.edge = @ \cup {<<s, d, k>>},
                 !.nodes = @ \cup {s, d},
                 !.blk = IF s \in DOMAIN g.blk /\ ~HasCons(g.blk[s], d)
                         THEN [g.blk EXCEPT ![s] = @ \cup {<<d, k>>}] ELSE g.blk]

AddBlockF(g, l, bto) ==
  IF l \in g.nodes THEN g
  ELSE LET waiters == {p \in g.pend : p[1] = l}
           blk1 == [x \in DOMAIN g.blk \cup {l} |-> IF x = l THEN bto ELSE g.blk[x]]
           pres == DOMAIN blk1
       IN [blk |-> blk1,
           edge |-> g.edge \cup {<<p[2], l, p[3]>> : p \in waiters}
                           \cup {<<l, c[1], c[2]>> : c \in {c \in bto : c[1] \in pres}},
           pend |-> (g.pend \ waiters) \cup {<<c[1], l, c[2]>> : c \in {c \in bto : c[1] \notin pres}},
           nodes |-> g.nodes \cup {l}]

RECURSIVE AddBlocksF(_, _)
AddBlocksF(g, S) == IF S = {} THEN g
                    ELSE LET b == CHOOSE x \in S : TRUE IN AddBlocksF(AddBlockF(g, b.l, b.bto), S \ {b})
RECURSIVE AddEdgesF(_, _)
AddEdgesF(g, E) == IF E = {} THEN g
                   ELSE LET e == CHOOSE x \in E : TRUE IN AddEdgesF(AddEdgeF(g, e[1], e[2], e[3]), E \ {e})

Empty == [blk |-> <<>>, edge |-> {}, pend |-> {}, nodes |-> {}]
Built(S) == AddBlocksF(Empty, S)          \* the foreign graph as its own AsmCFG
MergeF(g, S) == LET o == Built(S) IN AddEdgesF(AddBlocksF(g, S), o.edge)
MergeConflicts(g, S) ==
  LET o == Built(S) g1 == AddBlocksF(g, S) IN
  \E e \in o.edge : Conflict(g1, e[1], e[2], e[3])
  \* (a conflicting merge fails on an assertion half-way: outside the property)

Install(g) == blk' = g.blk /\ edge' = g.edge /\ pend' = g.pend /\ nodes' = g.nodes

(* ---- actions -------------------------------------------------------------------- *)
AddBlock(l, bto) ==
  /\ Install(AddBlockF(G, l, bto))
  /\ ret' = (IF l \in nodes THEN "false" ELSE "true") /\ dirty' = dirty

AddEdge(s, d, k) ==
  /\ s \in Present /\ d \in Present
  /\ IF Conflict(G, s, d, k)
     THEN ret' = "AssertionError" /\ UNCHANGED <<blk, edge, pend, nodes>>
     ELSE Install(AddEdgeF(G, s, d, k)) /\ ret' = "none"
  /\ dirty' = dirty

DelEdge(s, d) ==
  /\ s \in Present /\ d \in Present /\ HasEdge(G, s, d)
  /\ blk' = [blk EXCEPT ![s] = {c \in @ : c[1] # d}]
  /\ edge' = {e \in edge : ~(e[1] = s /\ e[2] = d)}
  /\ UNCHANGED <<pend, nodes, dirty>> /\ ret' = "none"

DelBlock(l) ==
  /\ l \in Present
  /\ blk' = [x \in Present \ {l} |-> IF \E e \in edge : e[1] = x /\ e[2] = l
                                     THEN {c \in blk[x] : c[1] # l} ELSE blk[x]]
  /\ edge' = {e \in edge : e[1] # l /\ e[2] # l}
  /\ pend' = {p \in pend : p[2] # l}      \* the deleted block no longer waits for anything
  /\ nodes' = nodes \ {l}
  /\ UNCHANGED dirty /\ ret' = "none"

Merge(k) ==
  /\ ~dirty /\ ~MergeConflicts(G, Others[k])
  /\ Install(MergeF(G, Others[k])) /\ ret' = "none" /\ dirty' = dirty

MutateBto(l, bto) ==     \* direct edit of block.bto, outside the AsmCFG API
  /\ l \in Present /\ bto # blk[l]
  /\ blk' = [blk EXCEPT ![l] = bto] /\ dirty' = TRUE
  /\ UNCHANGED <<edge, pend, nodes>> /\ ret' = "none"

ExactEdges(b) == {<<s, c[1], c[2]>> : <<s, c>> \in {<<s, c>> \in (DOMAIN b) \X (Loc \X Kind) : c \in b[s] /\ c[1] \in DOMAIN b}}
ExactPend(b) == {<<c[1], s, c[2]>> : <<s, c>> \in {<<s, c>> \in (DOMAIN b) \X (Loc \X Kind) : c \in b[s] /\ c[1] \notin DOMAIN b}}
RebuildEdges ==
  /\ edge' = ExactEdges(blk) \cup {e \in edge : e[1] \notin Present}
  /\ pend' = ExactPend(blk)
  /\ UNCHANGED <<blk, nodes>> /\ dirty' = FALSE /\ ret' = "none"

(* While a block's constraints are out of sync (dirty) the only meaningful calls are  *)
(* further direct edits and rebuild_edges: the property speaks about API sequences.  *)
Do(o) == /\ (dirty => o.op \in {"MutateBto", "Rebuild"})
         /\ CASE o.op = "AddBlock" -> AddBlock(o.l, {<<o.bto[i][1], o.bto[i][2]>> : i \in 1..Len(o.bto)})
           [] o.op = "AddEdge" -> AddEdge(o.s, o.d, o.k)
           [] o.op = "DelEdge" -> DelEdge(o.s, o.d)
           [] o.op = "DelBlock" -> DelBlock(o.l)
           [] o.op = "Merge" -> Merge(o.k)
           [] o.op = "MutateBto" -> MutateBto(o.l, {<<o.bto[i][1], o.bto[i][2]>> : i \in 1..Len(o.bto)})
             [] o.op = "Rebuild" -> RebuildEdges

(* operation records carry bto as a sequence (JSON array) *)
RECURSIVE SeqOf(_)
SeqOf(S) == IF S = {} THEN <<>> ELSE LET x == CHOOSE y \in S : TRUE IN <<x>> \o SeqOf(S \ {x})
BtoSeqs == {SeqOf(b) : b \in Btos}
Ops == [op : {"AddBlock", "MutateBto"}, l : Loc, bto : BtoSeqs]
       \cup [op : {"AddEdge"}, s : Loc, d : Loc, k : Kind]
       \cup [op : {"DelEdge"}, s : Loc, d : Loc] \cup [op : {"DelBlock"}, l : Loc]
       \cup [op : {"Merge"}, k : 1..Len(Others)] \cup [op : {"Rebuild"}]
Next == \E o \in Ops : Do(o)
Spec == Init /\ [][Next]_vars

----------------------------------------------------------------------------
(* Properties (C30) *)
TypeOK == /\ \A l \in Present : WellFormed(blk[l]) /\ Present \subseteq nodes
EdgesMirror == ~dirty => edge = ExactEdges(blk)
PendingsExact == ~dirty => pend = ExactPend(blk)
NodesAreBlocks == ~dirty => nodes = Present

BlkList == {<<l, c[1], c[2]>> : <<l, c>> \in {<<l, c>> \in Present \X (Loc \X Kind) : c \in blk[l]}}
Proj == [present |-> Present, cons |-> BlkList, edge |-> edge, pend |-> pend, nodes |-> nodes]
AbsView == <<blk, edge, pend, nodes, dirty>>
ToSet(q) == {q[i] : i \in 1..Len(q)}
Matches(j) == /\ Present = ToSet(j.present) /\ BlkList = ToSet(j.cons) /\ edge = ToSet(j.edge)
              /\ pend = ToSet(j.pend) /\ nodes = ToSet(j.nodes)
=============================================================================
