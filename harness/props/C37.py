"""C37 SSA construction is valid (one definition, definitions dominate uses) and out-of-SSA preserves behaviour."""
from .. import core
from .. import exprjson as X
from .. import irequiv as Q
from .. import irjson as J
from .. import asmgen

REGS32 = ["EAX", "EBX", "ECX", "EDX", "ESI", "EDI", "EBP", "ESP"]
FLAGS = ["zf", "cf", "nf", "of", "pf", "af"]


def run(ctx):
    from miasm.analysis.machine import Machine
    from miasm.analysis.simplifier import IRCFGSimplifierSSA
    q = ctx.quick
    rng = ctx.rng
    machine = Machine("x86_32")
    items, meta = [], []
    for n in range(40 if q else 500):
        k = rng.random()
        gen = asmgen.AsmGen(rng, loops=k < 0.7)
        src = gen.function()
        if k > 0.9:
            # the head itself is a loop head (a block jumping to the function's first instruction)
            src = src.replace("main:\n", "main:\n    DEC EDX\n    JNZ main\n", 1) if rng.random() < 0.5 else \
                src.replace("    RET\n", "    DEC EDX\n    JNZ main\n    RET\n", 1)
        try:
            loc_db, lifter, cfg, head, make = asmgen.build(machine, src)
            orig = Q.graph_json(make())
        except Exception:
            continue
        g = make()
        simp = IRCFGSimplifierSSA(lifter)
        try:
            ssa = simp.ircfg_to_ssa(g, head)
            sj = Q.graph_json(ssa.graph)
            edges = [{"s": J.loc_name(a), "d": J.loc_name(b)} for a, b in ssa.graph.edges()]
            immut = sorted(set(x.name for x in ssa.immutable_ids if x.is_id()))
        except Exception as ex:
            ctx.violation("ssa-construction-raised", {"source": src, "raised": type(ex).__name__ + ":" + str(ex)[:200]})
            continue
        # the head after the transformation (the construction may add a fresh head in front of a looping one)
        heads = [J.loc_name(h) for h in ssa.graph.heads()]
        new_head = heads[0] if len(heads) == 1 else J.loc_name(head)
        items.append({"t": "ssa", "blocks": sj, "edges": edges + [{"s": "-", "d": "-"}], "head": new_head, "immut": immut + ["-"]})
        meta.append(("ssa-valid", src))
        try:
            out = simp.ssa_to_unssa(ssa, head)
            tj = Q.graph_json(out)
        except Exception as ex:
            ctx.violation("out-of-ssa-raised", {"source": src, "raised": type(ex).__name__ + ":" + str(ex)[:200]})
            continue
        varmap = {}
        for v, reg in simp.all_ssa_vars.items():
            if reg.is_id():
                varmap[v.name] = reg.name
        for r in REGS32 + FLAGS:
            varmap[r] = r
        tj = Q.instrument(tj, varmap)
        obs = [{"a": r, "b": "OBS_" + r, "w": 32} for r in REGS32] + [{"a": f, "b": "OBS_" + f, "w": 1} for f in FLAGS]
        sizes = Q.sizes_of(orig, tj)
        for r in REGS32:
            sizes["OBS_" + r] = 32
        for f in FLAGS:
            sizes[f] = 1
            sizes["OBS_" + f] = 1
        sizes["IRDst"] = 32
        envs = Q.make_envs(rng, sizes, 4, REGS32, ())
        for e in envs:
            for f in FLAGS:
                e["ids"]["OBS_" + f] = e["ids"][f]
        start_b = new_head if any(b["loc"] == new_head for b in tj) else J.loc_name(head)
        items.append({"t": "equiv", "a": orig, "b": tj, "starta": J.loc_name(head), "startb": start_b, "w": 32, "obs": obs, "envs": envs,
                      "budget": 150, "ordered": True})
        meta.append(("out-of-ssa", src))
    verdicts = X.judge(ctx, items, label="c37", module="IRJudge", chunk=400)
    counts = {}
    for v, mt in zip(verdicts, meta):
        key = mt[0] + ":" + v.split(":")[0]
        counts[key] = counts.get(key, 0) + 1
        if v.startswith("bad"):
            ctx.violation("ssa-invalid" if mt[0] == "ssa-valid" else "out-of-ssa-differs", {"source": mt[1], "verdict": v})
    ctx.traces += len(items)
    ctx.evaluations += len(items)
    ctx.distinct = set(meta)
    for k in (0, len(meta) // 2, len(meta) - 1):
        ctx.sample({"what": meta[k][0], "source": meta[k][1][:300], "tlc_verdict": verdicts[k]})
    ctx.notes["verdicts"] = counts
    ctx.assumptions += ["dominance is evaluated by TLC from its definition over paths (IRJudge.tla DominatesN)",
                        "a phi argument must be defined in a block that dominates some predecessor of the phi's block",
                        "IRMachine.tla is the concrete semantics for the out-of-SSA comparison; registers and flags are observed through "
                        "shadow variables following the variables that stand for them"]
    return ("random structured x86-32 functions (loops, loop through the function head, diamonds) lifted and put in SSA form: TLC checks "
            "one definition per variable, every ordinary use dominated by its definition (by the path definition of dominance), every "
            "phi argument defined along a predecessor; the out-of-SSA graph is run against the original on IRMachine.tla: same ordered "
            "writes, exit, and every register and flag")
