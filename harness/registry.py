"""Per-property registration data used to build MANIFEST.json (tools/mkmanifest.py)."""

NA_PERMANENT = {
    "C15": "assembler/decoder round-trip over per-architecture bit-field tables is encode/decode fidelity of table-driven codecs; no state/transition structure a TLA+ model could decide (DESIGN.md section 6)",
    "C16": "printer/parser round-trip of instruction text is codec fidelity, not behaviour (DESIGN.md section 6)",
    "C17": "needs an independent reference disassembler as oracle; none is installed and a TLA+ length decoder written here would not be independent (DESIGN.md section 6)",
    "C18": "oracle is the host processor (differential test against hardware); a TLA+ x86 model would be a third hand-copied semantics (DESIGN.md section 6)",
    "C19": "oracle is a reference CPU emulator; none installed; same argument as C18 (DESIGN.md section 6)",
    "C42": "PE build/parse round-trip is serialisation fidelity; outside what a transition model decides (DESIGN.md section 6)",
    "C43": "ELF parse/build byte identity is serialisation fidelity, as C42 (DESIGN.md section 6)",
}

# id -> dict(technique, text, note, design_ref, engine)
CLAIMED = {}


def claim(pid, technique, text, note, design_ref, engine):
    CLAIMED[pid] = dict(technique=technique, text=text, note=note, design_ref=design_ref,
                        engine=engine)


SM = ("TLA+ spec model-checked with TLC; every TLC-enumerated (state, operation) edge replayed on the "
      "real object; recorded histories validated by TLC (trace validation)")

claim("C29", SM,
      "BoundedDict.tla: TLC checks size bound / eviction rule / callback contract on every reachable state of "
      "instances with 4 keys; every transition is replayed on miasm.core.utils.BoundedDict with TLC's expected "
      "return value, contents and callback log; random 40-step histories over 12 keys are validated by TLC "
      "against the same actions (eviction ties are nondeterministic in the spec).",
      "TLC; my transcription of the contract; CPython refcounting for __del__; configurations with min_size>=1",
      "DESIGN.md 5/C29, B.1", "BoundedDict")

claim("C33", SM,
      "StrPatchwork.tla: every buffer content over {pad,1,2} up to the length bound and every read/write/append/search "
      "from it (TLC-enumerated, with a ghost 'search cached' bit so search/write/search histories are explored) is "
      "replayed on StrPatchwork and compared byte for byte; random histories validated by TLC.",
      "TLC; non-negative indices, explicit slice stops, step 1", "DESIGN.md 5/C33, B.8", "StrPatchwork")

claim("C28", SM,
      "LocationDB.tla: TLC checks offset/name injectivity, rejected-ops-unchanged, non-strict creation result and "
      "merge completeness on all states over 3 names x 2-3 offsets x <=3 locations; every transition replayed on "
      "LocationDB (getters cross-checked, consistency_check after every call) through an identity-free projection; "
      "random histories over 6 names / 6 offsets with merges validated by TLC.",
      "TLC; merge only required for non-conflicting foreign databases; live LocKey arguments", "DESIGN.md 5/C28, B.2",
      "LocationDB")

claim("C26", SM,
      "Interval.tla: two registers holding finite integer sets; TLC enumerates every pair of sets reachable through "
      "constructor lists (reversed, adjacent, nested bounds) and union/intersection/difference and every observer "
      "(membership, inclusion, length, hull, equality, emptiness); each edge is replayed on miasm.core.interval with a "
      "canonical-form check; random histories over 0..24 are validated by TLC.",
      "TLC; integer universe bounded (0..6 exhaustive, 0..24 recorded)", "DESIGN.md 5/C26, B.8", "Interval")

claim("C45", SM,
      "LibImp.tla: stub allocation with library/function strides as constants; TLC checks injectivity, stability and "
      "same-answer on scaled-down strides where library areas overflow, every history of depth<=5/7 over 4 library "
      "names x 4 functions is replayed on libimp (returned addresses, fad2info/fad2cname inverses), and 900-call "
      "histories giving one library more than 256 functions are validated by TLC with the real constants.",
      "TLC; only the fake-library path of libimp (lib_get_add_base/lib_get_add_func)", "DESIGN.md 5/C45, B.8", "LibImp")

claim("C30", SM,
      "AsmCFG.tla: blocks with at most one constraint per destination, edges with kinds, pendings; TLC checks "
      "EdgesMirror / PendingsExact / NodesAreBlocks on every reachable state over 3 loc_keys (self-loops, merges, "
      "direct bto edits followed by rebuild_edges) and every transition is replayed on AsmCFG (edges2constraint, "
      "graph edges, successor/predecessor views, pendings, block.bto); random histories over 6 loc_keys validated by TLC.",
      "TLC; well-formed blocks; edge ops between present blocks; non-conflicting merges; while bto is edited directly only rebuild_edges is called",
      "DESIGN.md 5/C30, B.3", "AsmCFG")

claim("C24", SM,
      "VmMngr.tla: byte map with per-page permissions, byte order, recorded access sets, memory breakpoints, code blocks "
      "and exception flags; TLC checks NoOverlap / FaultAtomic / BpExact / Recorded and enumerates three operation pools "
      "(mapping + host access; emulated typed access over every layout of <=2 pages incl. zero-sized and adjacent pages "
      "with different permissions, both byte orders; memory breakpoints); every edge is replayed on the VmMngr extension "
      "rebuilt from the working tree (emulated accesses through vm_MEM_LOOKUP_*/vm_MEM_WRITE_* via ctypes); 60-step mixed "
      "histories over 24 addresses are validated by TLC.",
      "TLC; gcc; ctypes access to the vm_mngr_t inside the Vm object; no address wrap-around at 2^64",
      "DESIGN.md 4.4, 5/C24, B.4", "VmMngr")

EXPRJ = ("TLA+ reference semantics (BV.tla / Expr.tla, self-checked exhaustively by TLC against integer arithmetic) used as the "
         "deciding oracle: results recorded from the real code are judged by TLC item by item (trace validation of "
         "one-step Call/Return traces), including exhaustively enumerated small instances")

claim("C01", EXPRJ,
      "Expr.tla gives every IR operator its bit-level meaning; each of the three shipped simplifiers is run on every "
      "one-operator (and nested, width<=2) expression over {a,b,0,1,-1} at widths 1..3 under ALL valuations, and on seeded "
      "random and rule-shaped trees at widths 1..128 under boundary+random valuations; TLC judges width, well-sizedness and "
      "value equality of every call result and of every individual rewrite step (so a rejection names the rule); an "
      "exception or an exhausted budget has no action in the spec and is a violation.",
      "TLC; BV/Expr transcription (self-checked by BVTest.tla); memory modelled as a fixed function of the address; "
      "operators outside Expr.tla (float, segm, ...) are not generated", "DESIGN.md 4.1-4.2, 5/C01", "ExprJudge")
claim("C02", EXPRJ,
      "Same recorded Call/Return traces as C01: every call Simp(e)->r is followed by Simp(r)->r2 and TLC requires r2 = r "
      "(canonical identity); termination is decided per input with a budget of 200000 rule applications / 20 s (a call "
      "that exhausts it is a violation).",
      "termination is decided per explored input with a budget, not proved", "DESIGN.md 5/C02", "ExprJudge")
claim("C03", EXPRJ,
      "TLC evaluates BV.tla's definition for every operator with a folding rule on ALL operand values at widths 1..4 (quick) / "
      "1..5 (thorough) incl. shift/rotate counts >= width and INT_MIN/-1, and on boundary+random tuples at widths up to 128; "
      "the value miasm's simplifiers fold the constant expression to must be equal; BV.tla itself is checked exhaustively "
      "against integer arithmetic by BVTest.tla.",
      "TLC; wide widths are sampled (boundary + random), small widths exhaustive", "DESIGN.md 4.1, 5/C03", "ExprJudge")

claim("C05", EXPRJ,
      "Expr.tla is the reference meaning; every enumerated small tree (all valuations) and seeded random / rule-shaped trees at "
      "widths 1..128 (boundary+random valuations, memory reads, both byte orders) are translated by TranslatorZ3, the z3 term is "
      "evaluated under the valuation (identifiers substituted, memory selects replaced by the environment's bytes) and TLC "
      "judges every recorded value; NotImplementedError = unsupported is legal, any other exception is a violation.",
      "TLC; z3 as the evaluator of its own terms; operators outside Expr.tla are not generated", "DESIGN.md 5/C05", "ExprJudge")

claim("C06", EXPRJ,
      "As C05 for TranslatorSMT2: the emitted SMT-LIB2 term is evaluated by the z3 binary (one (simplify term) per valuation, "
      "identifiers bound by define-fun, memory by a lambda array computing the environment's bytes) and TLC judges the value "
      "against Expr.tla; enumerated small trees under all valuations + random / rule-shaped trees at widths 1..64, both byte orders.",
      "TLC; /usr/bin/z3 as evaluator of SMT-LIB2 text; unsupported operators (NotImplementedError) are legal",
      "DESIGN.md 5/C06", "ExprJudge")

claim("C07", EXPRJ,
      "As C05 for TranslatorPython (the emitted source is evaluated by the Python interpreter with integer identifiers and a "
      "memory() callback; the value is judged by TLC against Expr.tla; a non-integer result, an exception other than "
      "NotImplementedError or an evaluation that does not finish is a violation) and TranslatorMiasm (the emitted construction "
      "source is evaluated and must yield the identical interned object, incl. names with quotes/backslashes/newlines/non-ASCII "
      "and integers of widths 1..256).",
      "TLC; CPython as evaluator of the emitted source; expressions with locations are excluded from the construction-source part",
      "DESIGN.md 5/C07", "ExprJudge")

claim("C04", EXPRJ,
      "TranslatorC output for random / rule-shaped expressions at native widths, odd widths and the bn_t path (65..256 bits), and "
      "one operator at a time at 8/16/32/64/128 bits, is compiled with gcc against the working tree's op_semantics.c and bn.c and "
      "run with boundary+random inputs (results on a separate descriptor); TLC judges every value against Expr.tla (the pivot "
      "C03 ties to miasm's own constant evaluation); a crash, an endless loop or any byte on stdout is a violation.",
      "TLC; gcc; MEM_LOOKUP_* stubbed with the environment's memory function; expressions the translator refuses, whose C does "
      "not compile, or whose helper refuses the operand width at run time count as 'not accepted'; divisions by zero are not run",
      "DESIGN.md 5/C04", "ExprJudge")

claim("C09", EXPRJ,
      "possible_values(e) is recorded for expressions with conditionals nested in operands, slices, compositions, memory pointers, "
      "branches and conditions (shared conditions included); TLC evaluates e, every alternative's constraints and value under all "
      "valuations (<= 9 identifier bits) or boundary+random ones and requires: some alternative is enabled, and every enabled "
      "alternative has the concrete value of e.",
      "TLC; Expr.tla reference; undefined constraints count as not enabled", "DESIGN.md 5/C09", "ExprJudge")
claim("C10", EXPRJ,
      "Every ModularIntervals operation (+ & | ^ * >> << a>> >>> <<< neg, modulo by a constant) on all pairs of single intervals and "
      "sampled multi-interval sets at widths 1..3 (quick) / 1..4 (thorough): TLC enumerates every pair of members, applies BV.tla's "
      "operator and checks the result lies in the computed set; expr_range on enumerated small expressions (all valuations) and on "
      "random / mask-shaped expressions at 8..64 bits (boundary+random valuations): the value TLC computes must lie in the range.",
      "TLC; BV/Expr reference; soundness (over-approximation) only, as the property states", "DESIGN.md 5/C10", "ExprJudge")
claim("C11", EXPRJ,
      "match_expr is run on all (expression, pattern) pairs of depth <= 1 over a grammar with commutative / non-commutative operators, "
      "slices, memory reads, conditionals, 2- and 3-part compositions, 3-ary sums and two jokers, and on random deeper pairs derived "
      "by abstraction + perturbation; TLC validates each reported match: substituting the bindings in the pattern gives the "
      "expression up to the argument order of commutative operators, with a single binding per joker.",
      "TLC; soundness of reported matches only", "DESIGN.md 5/C11", "ExprJudge")

claim("C08", SM,
      "Intern.tla: the hash-consing machine (table from structural-key class to the token of the unique live object; Build returns "
      "the existing token or a fresh one; every identity round-trip returns the expression's own token); InternKeys.tla defines "
      "structural keys, integer normalisation modulo 2^width and the width rule, evaluated by TLC per key pool. TLC checks "
      "Injective / TokensDense / NeverForgets and every (state, operation) over a 15-key pool is replayed on miasm (object identity "
      "as token, ==/hash cross-checked against identity, widths against the rule); recorded histories over ~190 keys (awkward names, "
      "widths 1..256) with repr->parse, pickle, deepcopy, copy, replace-nothing and visit round-trips are validated by TLC.",
      "TLC; textual and pickle formats are not modelled (round-trips are identity events); CPython object identity of live objects",
      "DESIGN.md 5/C08", "Intern")

claim("C13", SM,
      "SymbMem.tla: cells (base, offset mod 2^addrsize) hold byte terms (byte k of an opaque value, a constant byte, the original "
      "content of a cell); untouched cells hold their own original content, so deleting and writing the original back coincide; "
      "actions Write (opaque values, constants, copies of original memory), Read, Delete (KeyError unless wholly stored), "
      "DeletePartial, Contains, ExportImport (get_state -> fresh engine -> set_state). TLC checks TypeOK / WriteLocal / ReadPure, "
      "every (state, operation) to depth 2 (quick) / 3 over 2 bases and offsets around 0 and 2^16 is replayed on "
      "SymbolicExecutionEngine.symbols (every cell re-read byte by byte, multi-byte reads decomposed into byte terms), longer "
      "simulated behaviours are replayed and recorded random histories are validated by TLC.",
      "TLC; 16-bit address size; byte-aligned accesses; structural decomposition of read results into byte terms by the harness",
      "DESIGN.md 5/C13, B.6", "SymbMem")

IRJ = ("TLA+ reference semantics of miasm IR (IRMachine.tla over Expr.tla / BV.tla: parallel assign blocks, byte memory with a write "
       "log, successor selection by IRDst) used as the deciding oracle: facts recorded from the real code (symbolic states, "
       "transformed graphs, lifted blocks) are judged by TLC item by item against concrete runs of the machine")

claim("C12", IRJ,
      "Random IR programs over x86-32 registers (1-4 blocks; swaps, use-and-redefine, reads/writes on pointer registers +- constants "
      "and absolute addresses, overlapping accesses on one base, constant / conditional / computed destinations) are run by "
      "SymbolicExecutionEngine.run_at (the executed block path and every pointer the engine reads or writes are recorded by wrapping "
      "its hooks); TLC runs the same path on IRMachine.tla from several concrete initial states and checks every register of the "
      "symbolic state, registers absent from it, every symbolic memory entry, that every concrete write is covered, and the destination.",
      "TLC; valuations where accesses on different symbolic bases overlap are excluded (the property's proviso), decided by "
      "evaluating the recorded pointers; one memory destination per assign block", "DESIGN.md 4.3, 5/C12", "IRJudge")

claim("C14", IRJ,
      "For each of 15 architecture/mode machines, byte strings from a fixed stream and the encodings listed in the repository's "
      "vector files are decoded and lifted one instruction at a time at several addresses; each produced block is exported and "
      "TLC evaluates IRJudge.tla's TypeCheck: destinations are registers or memory, both sides have equal width, IRDst is assigned "
      "exactly once, every identifier is a register the architecture declares (or a location), and the IR graph has an edge for "
      "every location leaf of the destination's conditional tree. A lifter exception other than its 'unsupported' reports is a "
      "violation (52 such instruction forms are recorded as known findings, identified by family:mnemonic:exception).",
      "TLC; single-instruction lifting (Thumb IT prefixes excluded); the byte stream does not depend on VERIF_SEED; sh4 has no lifter",
      "DESIGN.md 5/C14", "IRJudge")

claim("C25", SM,
      "BinStream.tla: a window at a base address on a byte source that may be patched between instructions; byte, bit-field "
      "(MSB first) and integer reads (both byte orders) return the current content, reads leaving the source raise IOError, atomic "
      "(cached) sections; the ghost 'last cached key' makes read-leave-patch-enter-read histories distinct abstract states. TLC "
      "enumerates every content up to 2 (quick) / 3 bytes and every read inside, across and outside the bounds in every state; each "
      "edge is replayed on bin_stream_str (patchable buffer), bin_stream_file and bin_stream_vm (VmMngr rebuilt from the working "
      "tree); recorded random histories over 9-byte sources are validated by TLC.",
      "TLC; parsed PE/ELF containers are not driven; the source changes only outside atomic sections; no zero-length byte reads",
      "DESIGN.md 5/C25", "BinStream")

claim("C27", SM,
      "Graph.tla states every algorithm by its definition over paths / reachability (dominates = every path from the head goes "
      "through; immediate dominator; dominator tree; dominance frontier; back edges; natural loops; SCC / WCC as reachability "
      "classes; reachable sets; cycle existence; simple paths) and the DiGraph mutation API as a state machine whose projection is "
      "the whole analysis for every head and leaf. TLC evaluates the definitions on all graphs with <= 3 nodes, on all 65536 graphs "
      "with 4 nodes (thorough; a seeded sample in quick) and on sampled 5-node graphs, and explores add/delete node/edge histories; "
      "every result is compared with DiGraph (dominators, post-dominators, immediate ones, tree, frontier, back edges, loops, "
      "components, sons/parents, heads/leaves, has_loop, find_path and find_path_from_src).",
      "TLC; 5-node graphs sampled, larger graphs not explored; simple paths only (cycles_count = 0)", "DESIGN.md 5/C27", "Graph")

JITJ = ("TLA+ reference CPU (JitMachine.tla: an abstract instruction set with one fixed x86-32 encoding per instruction, executed one "
        "instruction at a time with precise faults and instruction-boundary breakpoints) used as the deciding oracle: scripts played "
        "on the real jitters are recorded and TLC (JitJudge.tla) plays the same script on the reference and names the first difference")

claim("C20", JITJ,
      "Random abstract-ISA programs (register hash chain, push log, counted loop, byte and page-straddling 4-byte stores, loads, "
      "stores into their own code) under page layouts with read-only / missing pages and with breakpoints are run on the python and "
      "gcc backends rebuilt from the working tree; final registers, memory window, stack log, fault flag, stop reason, pc and "
      "breakpoint hit sequence of each backend are compared by TLC with the reference CPU, hence with each other.",
      "TLC; LLVM backend not runnable here (llvmlite missing); x86-32 only; the python backend's handling of page permissions / "
      "unmapped memory is a recorded known finding", "DESIGN.md 4.5, 5/C20", "JitJudge")
claim("C21", JITJ,
      "Each program is run under jit_maxline 1/2/3/50, max_exec_per_call 0/1/2, a 3- or 4-entry block cache (blocks evicted while "
      "running), cold and again from the same initial state on the warm translation cache, on both backends; every configuration "
      "must reproduce the reference CPU's final state, register hash chain and push log (the executed-instruction sequence).",
      "TLC; the instruction sequence is observed through the hash chain / push log, not per address; python + gcc backends",
      "DESIGN.md 5/C21", "JitJudge")
claim("C22", JITJ,
      "Programs whose stores overwrite the immediate of an earlier, a later-in-the-same-block or another block's instruction, and "
      "host writes (vm.set_mem) into already translated instructions between runs (also followed by add_breakpoint), under several "
      "block lengths and cache sizes on both backends: TLC's reference CPU fetches the current bytes, so any stale translation shows "
      "as a different hash chain / push log.",
      "TLC; patches target immediates of RT / PU instructions; python + gcc backends", "DESIGN.md 5/C22", "JitJudge")
claim("C23", JITJ,
      "Breakpoints on block starts, mid-block instructions, loop heads and never-reached slots, added before translation or after a "
      "first run (inside already translated blocks), removed between runs, stopping or not, with resumption after a stop, under "
      "several block lengths / cache sizes on both backends: hit sequence, stop reason and pc must equal the reference CPU's.",
      "TLC; one callback per address (add_breakpoint / remove_breakpoints_by_address); python + gcc backends", "DESIGN.md 5/C23", "JitJudge")
claim("C49", JITJ,
      "Stores, 4-byte stores straddling a page end, loads and pushes hitting read-only or missing pages at the first, middle or last "
      "position of blocks of several lengths: after the fault TLC requires pc on the instruction, the fault reported and registers, "
      "memory and stack as before the instruction; after mapping / unprotecting and clearing the fault, continuing must end in the "
      "reference CPU's final state.",
      "TLC; an EXCEPT_ACCESS_VIOL handler that stops the run is installed; gcc backend decides, the python backend's behaviour is a "
      "recorded known finding", "DESIGN.md 5/C49", "JitJudge")

claim("C48", ("TLA+ specification of what every allocator result must satisfy (Alloc.tla: nondeterministic placement, coverage by mapped "
              "pages, disjointness and distinctness from live allocations); request histories executed on the real environments are "
              "validated by TLC event by event (trace validation with the returned address and page list bound from the log)"),
      "Alloc.tla leaves the placement free and constrains each result: [a, a+n) covered by mapped pages, no overlap with and an "
      "address distinct from every live allocation (an empty allocation occupies its address). Request histories - every pair "
      "(thorough: triple) and random mixes up to 8 of {heap.vm_alloc, VirtualAlloc, HeapAlloc, malloc} resp. {mmap, mmap with hint, "
      "mmap MAP_FIXED at a free address, brk} x sizes {0, 1, 0xfff, 0x1000, 0x1001} - are executed on a python-backend x86-32 "
      "jitter / LinuxEnvironment and validated by TLC.",
      "TLC; x86-32 environments only; frees and MAP_FIXED over an existing mapping are not exercised; Windows and Linux allocators are "
      "not mixed in one process", "DESIGN.md 5/C48", "Alloc")

claim("C36", IRJ,
      "Random structured x86-32 functions (diamonds, nested ifs, jump-only blocks, counted loops, stack slots and absolute cells with "
      "mixed access widths, push/pop) are assembled, disassembled and lifted; IRCFGSimplifierCommon and IRCFGSimplifierSSA are "
      "applied and TLC runs original and simplified graph on IRMachine.tla from several initial states (RunGraph with a step "
      "budget): the ordered byte-write log, the exit (IRDst value) and EAX / ESP - read through shadow variables that follow every "
      "variable standing for them after SSA renaming - must coincide.",
      "TLC; functions without calls; x86-32; two recorded known findings of the SSA pipeline (loop-carried assignments; dropped "
      "redundant stores)", "DESIGN.md 5/C36", "IRJudge")

claim("C40", IRJ,
      "Random structured x86-32 functions are lifted; propagate_cst_expr (with the architecture's <reg>_init table) rewrites the graph "
      "in place and TLC runs original and rewritten graph on IRMachine.tla from initial states in which every register and flag "
      "holds its initial value: same ordered byte-write log, same exit, same value in every general register and flag.",
      "TLC; functions without calls; x86-32; one recorded known finding (memory reads through constant pointers are propagated as "
      "constants past later stores)", "DESIGN.md 5/C40", "IRJudge")

claim("C37", IRJ,
      "Random structured x86-32 functions (loops, loops through the function head, diamonds) are lifted and converted with "
      "SSADiGraph; TLC checks on the exported SSA graph: at most one definition per variable, every ordinary use dominated by its "
      "definition (dominance evaluated from its definition over paths), every phi argument defined in a block dominating a "
      "predecessor of the phi's block. UnSSADiGraph's output is run against the original graph on IRMachine.tla from several "
      "initial states: same ordered writes, same exit, same value of every register and flag (through shadow variables).",
      "TLC; x86-32 functions without calls; graphs up to ~25 blocks", "DESIGN.md 5/C37", "IRJudge")

claim("C38", IRJ,
      "IRJudge.tla states the three analyses by their path definitions on the graph of program points: a definition reaches a point "
      "iff some execution from just after it to the point does not redefine the variable (FlowNoDef, a TLC reachability fixpoint); a "
      "def-use link exists iff the definition reaches an assignment reading the variable; a variable is live at a point iff some "
      "execution from it reads the variable before writing it (or leaves the function with an ABI output register unwritten). "
      "ReachingDefinitions, DiGraphDefUse(deref_mem) and DiGraphLivenessIRA results on synthetic graphs (3 variables, <= 6 blocks, "
      "loops, exit-less loops, unreachable blocks, swaps and cross-dependent parallel assignments) and on lifted random x86-32 "
      "functions are exported and TLC requires equality (both inclusions).",
      "TLC; register (identifier) facts only; one recorded known finding (liveness of blocks that cannot reach an exit)",
      "DESIGN.md 5/C38", "IRJudge")

claim("C39", IRJ,
      "IRJudge.tla executes the FULL assignment blocks of a dependency solution's history (IRMachine.StepBlock, last block cut at the "
      "queried line) over concrete initial states and requires that (a) every tracked element's final value equals TLC's evaluation "
      "of the expression DependencyResult.emul() computed from the sliced assignments, and (b) in implicit mode the solver's path "
      "constraints (evaluated under the same initial state) hold exactly when the reference execution follows the history block by "
      "block (Follows). Solutions come from DependencyGraph.get on random loop-free lifted x86-32 functions (random target block, "
      "line and register pair; explicit and implicit mode; alias-free and aliasing memory layouts).",
      "TLC; loop-free x86-32 functions without calls; one recorded known finding (stores reaching a load through a different address "
      "expression are not tracked), identified by a trigger TLC re-decides on every run",
      "DESIGN.md 5/C39", "IRJudge")

FSJ = ("TLA+ model of the HOST file system (SandboxFS.tla: a tree of directories, files and symbolic links and the kernel's "
       "component-by-component path walk) used as the deciding oracle: the host paths the emulated environments return for guest "
       "paths are recorded and TLC walks each one over the model of the scratch host it was computed on; the model's walk is itself "
       "validated against the real host (realpath) on every item")

claim("C46", FSJ,
      "SandboxFS.tla decides where a returned host path LANDS (links followed wherever the kernel follows them, '..' relative to the "
      "directory reached, absolute link targets from the host root) and requires the landing inside the base directory or on a "
      "passthrough entry. Hosts: exhaustive over pairs of symbolic links (top-level and nested) x 17 targets (relative, climbing, "
      "absolute guest-style, absolute host paths, chains, loops), a sibling directory whose name extends the base's, files next to "
      "the base; guest paths: every sequence up to 3 (thorough: 4 on 40 hosts) names over {a, l, f, .., .}, absolute and relative, plus "
      "hand-written ones (regexp-prefix and exact passthrough with '..', '//', Windows separators and drive prefixes). APIs: "
      "FileSystem.resolve_path (str, bytes, follow_link=False), the file really opened by FileSystem.open_ (read from "
      "/proc/self/fd), unix_to_sbpath, windows_to_sbpath.",
      "TLC; POSIX host; the known finding (string helpers ignore links) is decided by TLC on the same host without its links",
      "DESIGN.md 5/C46", "SandboxFS")

OSJ = ("TLA+ reference definitions of the helper functions (OsHelpers.tla over BV.tla: 64-bit modular arithmetic on bit vectors, C string "
       "semantics on a byte region, table-less CRC-32) used as the deciding oracle: every recorded stub call (arguments, memory before "
       "and after, result registers, stack discipline) is judged by TLC")

claim("C47", OSJ,
      "OsHelpers.tla states 35 helpers (RtlLargeInteger Add / Subtract / ShiftRight, RtlEnlargedUnsignedMultiply, "
      "RtlExtendedIntegerMultiply, RtlCompareMemory, RtlComputeCrc32, lstrlen / lstrcpy / lstrcat / lstrcpyn / lstrcmp(i) A and W, "
      "msvcrt wcs* / mem* / strrchr, linux_stdlib strlen / strcpy / strcmp / strncmp / memcpy / memset / isprint). The stubs are called "
      "on python-backend jitters (x86-32 stdcall / cdecl, x86-64 System V) with edge and random integers, strings that are equal / "
      "prefixes / differ by case, counts 0..16; TLC compares result registers (value, sign or returned pointer) and the whole buffer "
      "region after the call.",
      "TLC; one region of 96 bytes, non-overlapping source / destination; ASCII strings strict, strings with bytes >= 0x80 are the "
      "recorded known finding (cp1252 round trip)",
      "DESIGN.md 5/C47", "OsHelpers")

CLJ = ("TLA+ statement of the C layout rules (CLayout.tla: System V x86-64 and GCC packed layout, member-access offsets) used as the "
       "deciding oracle, itself checked against GCC on every declaration; the layouts and access translations recorded from miasm are "
       "judged by TLC")

claim("C35", CLJ,
      "CLayout.tla defines size, alignment and member offsets of base types, pointers, arrays, structs and unions (not packed: "
      "natural alignment with tail padding; packed: alignment 1) and the offset / type a member-access path designates. For random "
      "declaration sets GCC (sizeof, _Alignof, offsetof compiled and run) and CTypesManagerNotPacked / CTypesManagerPacked are both "
      "compared with it by TLC; member accesses p->a.b[i] are translated by CHandler.c_to_expr (offset and size must be the "
      "specification's) and back by expr_to_c_and_types (an access of the same expression and type must come back, for scalar members).",
      "TLC; GCC on this machine is the platform; no bit-fields / anonymous members; one recorded known finding (accesses across "
      "nested arrays), decided by TLC from the declaration",
      "DESIGN.md 5/C35", "CLayout")

MTJ = ("TLA+ state machine of a memory region under typed member writes (MemTypes.tla over CLayout.tla's packed layout and BV.tla): "
       "recorded histories of writes through the real memory views are validated by TLC step by step (trace validation: the region "
       "after each call must be the specification's successor state)")

claim("C34", MTJ,
      "MemTypes.tla: a write of a member changes exactly the member's extent to the number's encoding (byte order) or, for a bit-field "
      "member, exactly its bits of the backing number; the value read back is the value reduced to the member's width; offsets and "
      "sizes are those of the sequential layout. Random type definitions (nested structs, unions, arrays, integers of both byte "
      "orders, pointers, bit-fields reaching the most significant bit or not, strings in five encodings) are instantiated with "
      "miasm.core.types on a VmMngr region of random bytes; histories of 2..6 writes through MemStruct / MemArray / MemBitField / "
      "MemStr views are recorded (region after each call, value read back, reported address and size) and validated by TLC.",
      "TLC; integers only (no floats); strings after the structure", "DESIGN.md 5/C34", "MemTypes")

LDJ = ("TLA+ statement of what emulator memory must hold after loading an image (Loader.tla: per section / segment mapping, file bytes "
       "then zero padding, write permission; import slots mapping back to their function) used as the deciding oracle: memory observed "
       "after the real loaders ran is judged by TLC")

claim("C44", LDJ,
      "PE images are built with miasm.loader.pe_init (sections with raw size below / equal / above their data, virtual sizes beyond "
      "the raw data, read-only and writable flags, 0..3 import descriptors with repeated libraries) and 32-bit ELF executables are "
      "assembled by hand (PT_LOAD segments with zero-filled tails up to several pages, unaligned starts, all flag combinations); "
      "vm_load_pe + preload_pe / vm_load_elf load them into a fresh VmMngr and TLC requires, per Loader.tla, every section mapped on "
      "its whole virtual size with file bytes then zeros, the requested write permission, and every import slot holding a stub "
      "address that maps back to its (library, function).",
      "TLC; page-aligned PE sections; ELF imports not covered; one recorded known finding (ELF segments always writable)",
      "DESIGN.md 5/C44", "Loader")

DSJ = ("TLA+ statement of control-flow-graph well-formedness against the single-instruction decoding of the buffer (Disasm.tla) used as "
       "the deciding oracle: the blocks, constraints and graph edges recursive disassembly returns, and the merged blocks, are judged "
       "by TLC")

claim("C31", DSJ,
      "Disasm.tla: instructions of a block are consecutive and identical (mnemonic and bytes) to the single decoding at their offsets, "
      "no flow-breaking instruction inside a block, no instruction in two blocks, no branch target / forced split / forbidden address "
      "inside a block, block length and count limits, successors = static flow destinations (calls only with follow_call) + "
      "fall-through, both as block constraints and as graph edges; bbl_simplifier's merged blocks must be chains of original blocks "
      "minus only the jumps linking them. Buffers: hand-written x86-32 fragments (jumps into already disassembled blocks and into the "
      "bytes of longer instructions, INT / SYSCALL, calls, loops, targets outside the buffer), assembled random functions, random "
      "bytes salted with short branches; default and random configurations; start addresses inside the buffer.",
      "TLC; x86-32; no delay slots; one recorded known finding (merging on truncated graphs), decided by TLC",
      "DESIGN.md 5/C31", "Disasm")

LYJ = ("TLA+ statement of what an assembled layout must satisfy (Layout.tla: pinned labels, disjoint patches inside the range, contiguous "
       "fall-through, decoding equal to the program with labels resolved) together with a witness layout that TLC validates, used as "
       "the deciding oracle on what asm_resolve_final returns")

claim("C32", LYJ,
      "Random x86-32 programs of 2..5 chains (jumps, calls, memory operands, immediates and label + 4 referring to other chains, data "
      "words) are assembled once with every chain pinned (the witness: TLC checks it is disjoint and inside the range, so a layout "
      "exists) and again with a random subset of chains left free, in a roomy range (witness end + the assembler's pessimistic "
      "reservation) and in a tight one. TLC requires, per Layout.tla, success, every pinned label at its address, disjoint patches "
      "inside the range, contiguous fall-through blocks, and each block's bytes decoding to the program's instructions with labels "
      "replaced by their final addresses.",
      "TLC; x86-32; one recorded known finding (tight ranges fail on the pessimistic size reservation), confirmed per program by the "
      "roomy-range run",
      "DESIGN.md 5/C32", "Layout")

claim("C41", IRJ,
      "Random x86-32 functions (conditional structure, some counted loops, loads from cells that are never stored) run once under "
      "DSEPathConstraint (branch-coverage strategy, six general registers symbolized, python jitter): a DriftException is a "
      "violation. Every (branch, model) in new_solutions becomes an initial state of the TLA+ reference execution of the function's "
      "lifted IR (IRMachine.RunGraph over the same memory content as the emulator's), which must enter the branch's destination "
      "block right after the block holding the branch (IRJudge.TakesBranch). A self-test feeds the first run's own inputs in place "
      "of a solution and requires the rejection.",
      "TLC; registers symbolized, memory concrete; functions without calls; the concrete execution of a new input is IRMachine.tla's",
      "DESIGN.md 5/C41", "IRJudge")
