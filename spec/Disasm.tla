-------------------------------- MODULE Disasm --------------------------------
(* Recursive disassembly (property C31), stated against the single-instruction     *)
(* decoding of the buffer:                                                          *)
(*   dec[o + 1] = [ok, len, text, bf (breaks the flow), sf (splits it: falls        *)
(*                 through as well), call, dsts (static flow destinations)]          *)
(* for every offset o of the buffer.  A result is a set of blocks                   *)
(*   [start, bad, ins (offsets), bto (<<destination, "next" | "to">>), succ (graph)] *)
(* The configuration: dont (forbidden offsets), split (forced splits), lines / blocs *)
(* (limits, 0 = none), fcall (follow calls).                                        *)
EXTENDS Integers, Sequences, FiniteSets, TLC

Range(s) == {s[i] : i \in 1..Len(s)}
D(it, o) == it.dec[o - it.base + 1]
Last(b) == b.ins[Len(b.ins)]
EndOf(it, b) == Last(b) + D(it, Last(b)).len
InBuf(it, o) == o >= it.base /\ o < it.base + Len(it.dec)
Blocks(it) == Range(it.blocks)
Starts(it) == {b.start : b \in Blocks(it)}
AllIns(it) == UNION {Range(b.ins) : b \in Blocks(it)}

(* the successors a block must have, from its last instruction *)
ExpectedBto(it, b) ==
  IF b.bad \/ b.ins = <<>> THEN {}
  ELSE LET l == D(it, Last(b)) IN
       IF l.bf THEN (IF l.call /\ ~it.cfg.fcall THEN {} ELSE {<<d, "to">> : d \in Range(l.dsts)})
                    \cup (IF l.sf THEN {<<EndOf(it, b), "next">>} ELSE {})
       ELSE {<<EndOf(it, b), "next">>}
(* a destination reached both ways keeps one constraint (fix_constraints): compare destinations, and the kind when unambiguous *)
Dsts(s) == {x[1] : x \in s}

(* instructions of the run of blocks, linked by fall-through only, that ends with b (a block cut by the length limit may have  *)
(* been split afterwards: its tail then has no successor although it is shorter than the limit)                              *)
RECURSIVE Back(_, _)
Back(it, b) == Len(b.ins) + (LET P == {c \in Blocks(it) : ~c.bad /\ c.ins # <<>> /\ ~D(it, Last(c)).bf /\ EndOf(it, c) = b.start} IN
                             IF P = {} THEN 0 ELSE Back(it, CHOOSE c \in P : TRUE))
BlockDiff(it, b) ==
  IF b.bad THEN (IF b.ins # <<>> \/ b.bto # <<>> THEN "bad-block-with-content" ELSE "ok")
  ELSE IF b.ins = <<>> THEN "empty-block"
  ELSE IF b.ins[1] # b.start THEN "first-instruction-not-at-the-block-start"
  ELSE IF \E i \in 1..Len(b.ins) : ~InBuf(it, b.ins[i]) \/ ~D(it, b.ins[i]).ok THEN "instruction-where-single-decoding-fails"
  ELSE IF \E i \in 1..Len(b.ins) : b.text[i] # D(it, b.ins[i]).text THEN "instruction-differs-from-single-decoding"
  ELSE IF \E i \in 1..(Len(b.ins) - 1) : b.ins[i + 1] # b.ins[i] + D(it, b.ins[i]).len THEN "instructions-not-consecutive"
  ELSE IF \E i \in 1..(Len(b.ins) - 1) : D(it, b.ins[i]).bf THEN "flow-breaking-instruction-inside-a-block"
  ELSE IF \E o \in Range(b.ins) : o \in Range(it.cfg.dont) THEN "forbidden-address-disassembled"
  ELSE IF \E i \in 2..Len(b.ins) : b.ins[i] \in Range(it.cfg.split) THEN "forced-split-ignored"
  ELSE IF it.cfg.lines > 0 /\ Len(b.ins) > it.cfg.lines THEN "block-longer-than-the-limit"
  ELSE IF \E i \in 2..Len(b.ins) : b.ins[i] \in Dsts(UNION {Range(c.bto) : c \in Blocks(it)}) THEN "branch-target-inside-a-block"
  ELSE LET e == ExpectedBto(it, b)  g == Range(b.bto) IN
       IF Dsts(g) # Dsts(e) /\ ~(~D(it, Last(b)).bf /\ g = {} /\ it.cfg.lines > 0 /\ Back(it, b) >= it.cfg.lines)
       THEN "successors:" \o ToString(g) \o "/" \o ToString(e)
       ELSE IF \E x \in g : \E y \in e : x[1] = y[1] /\ x[2] # y[2] /\ Cardinality({z \in e : z[1] = x[1]}) = 1 THEN "successor-kind"
       ELSE IF Range(b.succ) # {d \in Dsts(g) : d \in Starts(it)} THEN "graph-edges-differ-from-the-block-constraints"
       ELSE "ok"
GlobalDiff(it) ==
  IF \E b, c \in Blocks(it) : b # c /\ Range(b.ins) \cap Range(c.ins) # {} THEN "instruction-in-two-blocks"
  ELSE IF \E b, c \in Blocks(it) : b # c /\ b.start = c.start THEN "two-blocks-at-one-address"
  ELSE IF it.cfg.blocs > 0 /\
          Cardinality(Blocks(it)) > it.cfg.blocs + Cardinality({b \in Blocks(it) : \E c \in Blocks(it) : ~c.bad /\ c.ins # <<>> /\ ~D(it, Last(c)).bf /\ EndOf(it, c) = b.start})
       THEN "more-blocks-than-the-limit"
  ELSE "ok"

(* merging (bbl_simplifier): a merged block is a chain of original blocks, each the only successor of the previous one; the only *)
(* instructions that may disappear are the direct jumps linking them                                                            *)
BlockAt(it, o) == CHOOSE b \in Blocks(it) : b.start = o
RECURSIVE Match(_, _, _, _, _, _)
Match(it, m, i, b, j, fuel) ==        \* m.ins from position i against block b from position j
  IF fuel = 0 THEN "merged-block-does-not-follow-a-chain-of-blocks"
  ELSE IF j <= Len(b.ins)
  THEN IF i <= Len(m.ins) /\ m.ins[i] = b.ins[j] THEN Match(it, m, i + 1, b, j + 1, fuel)
       ELSE IF j = Len(b.ins) /\ i <= Len(m.ins) /\ D(it, b.ins[j]).bf /\ ~D(it, b.ins[j]).call
               /\ Cardinality(Range(D(it, b.ins[j]).dsts)) = 1 /\ Range(D(it, b.ins[j]).dsts) \subseteq Starts(it)
               /\ (D(it, b.ins[j]).sf => Range(D(it, b.ins[j]).dsts) = {EndOf(it, b)})
            (* the linking jump (all its flow goes to one next block) was dropped; the next block may itself be only such a jump *)
            THEN Match(it, m, i, BlockAt(it, CHOOSE d \in Range(D(it, b.ins[j]).dsts) : TRUE), 1, fuel - 1)
            (* recorded deviation (known finding): the dropped branch had another destination that was never disassembled *)
            ELSE IF j = Len(b.ins) /\ D(it, b.ins[j]).bf /\ ~(Dsts(Range(b.bto)) \subseteq Starts(it))
            THEN "pending-destination-dropped-with-instruction-" \o ToString(b.ins[j])
            ELSE "instruction-" \o ToString(b.ins[j]) \o "-lost-or-reordered"
  ELSE IF i > Len(m.ins) THEN (IF Range(m.succ) = Range(b.succ) THEN "ok" ELSE "successors-of-the-merged-block")
       (* the chain goes on with the only successor (whose own instructions may be linking jumps that were dropped) *)
       ELSE IF Cardinality(Range(b.succ)) = 1 THEN Match(it, m, i, BlockAt(it, CHOOSE d \in Range(b.succ) : TRUE), 1, fuel - 1)
       ELSE "merged-over-a-block-with-several-successors"
MatchFrom(it, m) == Match(it, m, 1, BlockAt(it, m.start), 1, Cardinality(Blocks(it)) + 1)
MergeDiff(it) ==
  IF \E m \in Range(it.merged) : ~m.bad /\ m.ins # <<>> /\ (m.start \notin Starts(it) \/ MatchFrom(it, m) # "ok")
  THEN LET m == CHOOSE m \in Range(it.merged) : ~m.bad /\ m.ins # <<>> /\ (m.start \notin Starts(it) \/ MatchFrom(it, m) # "ok") IN
       "merged-block-" \o ToString(m.start) \o ":" \o (IF m.start \in Starts(it) THEN MatchFrom(it, m) ELSE "unknown-start")
  ELSE IF \E o \in AllIns(it) \ UNION {Range(m.ins) : m \in Range(it.merged)} : ~(D(it, o).bf /\ ~D(it, o).call /\ D(it, o).dsts # <<>>)
       THEN "instructions-missing-after-merging"
  ELSE "ok"

DVerdict(it) ==
  IF it.raised # "" THEN "bad:raised:" \o it.raised
  ELSE IF \E b \in Blocks(it) : BlockDiff(it, b) # "ok"
       THEN LET b == CHOOSE b \in Blocks(it) : BlockDiff(it, b) # "ok" IN "bad:block-" \o ToString(b.start) \o ":" \o BlockDiff(it, b)
  ELSE IF GlobalDiff(it) # "ok" THEN "bad:" \o GlobalDiff(it)
  ELSE IF MergeDiff(it) # "ok" THEN "bad:" \o MergeDiff(it)
  ELSE "ok"
=============================================================================
