------------------------------ MODULE LayoutJudge ------------------------------
(* Batch judge: every item is one assembly program with a witness layout and what asm_resolve_final produced *)
EXTENDS Layout, Json, IOUtils
VARIABLES lo, hi
Items == JsonDeserialize(IOEnv.ITEMS_FILE)
Init == lo = 1 /\ hi = Len(Items)
Next == /\ lo < hi
        /\ LET mid == (lo + hi) \div 2 IN
           \/ (lo' = lo /\ hi' = mid)
           \/ (lo' = mid + 1 /\ hi' = hi)
Report == lo < hi \/ PrintT("V " \o ToString(lo) \o " " \o AVerdict(Items[lo]))
=============================================================================
