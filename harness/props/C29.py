"""C29 BoundedDict: size bound, eviction rule, callback contract."""
from .. import core, sm


class Adapter(object):
    class H(object):
        pass

    def new(self, acfg):
        from miasm.core.utils import BoundedDict
        h = self.H()
        h.log = []
        h.obj = BoundedDict(acfg["max"], acfg.get("min"),
                            delete_cb=h.log.append if acfg.get("cb", True) else None)
        return h

    def apply(self, h, o):
        op = o["op"]
        try:
            if op == "Set":
                h.obj[o["k"]] = o["v"]
                return "none"
            if op == "Get":
                return h.obj[o["k"]]
            if op == "Del":
                del h.obj[o["k"]]
                return "none"
            if op == "Contains":
                return o["k"] in h.obj
            if op == "Destroy":
                h.obj = None        # last reference: __del__ runs now (CPython refcounting)
                return "none"
        except KeyError:
            return "KeyError"
        raise ValueError(op)

    def project(self, h):
        if h.obj is None:
            return {"data": {}, "cb": list(h.log), "alive": False}
        d = {k: h.obj[k] for k in h.obj.keys()} if False else dict(h.obj.data)
        assert set(h.obj.keys()) == set(d) and len(h.obj) == len(d)
        return {"data": d, "cb": list(h.log), "alive": True}


def to_trace_state(st):
    keys = sorted(st["data"])
    return {"keys": keys, "vals": [st["data"][k] for k in keys], "cb": st["cb"], "alive": st["alive"]}


def gen_op(rng, h, acfg):
    keys = acfg["keys"]
    r = rng.random()
    k = rng.choice(keys)
    if r < 0.5:
        return {"op": "Set", "k": k, "v": rng.choice(["v1", "v2", "v3"])}
    if r < 0.8:
        # bias towards held keys so counters diverge
        held = list(h.obj.keys())
        if held and rng.random() < 0.7:
            k = rng.choice(held)
        return {"op": "Get", "k": k}
    if r < 0.93:
        return {"op": "Del", "k": k}
    if r < 0.99:
        return {"op": "Contains", "k": k}
    return {"op": "Destroy"}


def consts(keys, vals, mx, mn, cb=True):
    return {"HasCb": "TRUE" if cb else "FALSE","Keys": core.tla_set(core.tla_str(k) for k in keys),
            "Vals": core.tla_set(core.tla_str(v) for v in vals),
            "Max": str(mx), "Min": str(mn)}


INV = ("TypeOK", "SizeBound")
PROPS = ("CallbackContract", "EvictOnlyAtLimit", "LastValue")


def run(ctx):
    ad = Adapter()
    keys = ["a", "b", "c", "d"]
    if ctx.quick:
        insts = [(3, None, 5), (3, 2, 5), (3, 3, 5), (4, 2, 5), (5, 2, 5)]
    else:
        insts = [(3, None, 7), (3, 2, 7), (3, 3, 6), (4, None, 7), (4, 2, 7), (4, 3, 6), (5, 2, 7), (6, None, 6), (6, 3, 6)]
    for mx, mn, depth in insts:
        eff = mn if mn else mx // 3
        sm.gen_replay(ctx, "BoundedDict", consts(keys, ["v1", "v2"], mx, eff), depth, ad,
                      acfg={"max": mx, "min": mn}, invariants=INV, properties=PROPS,
                      label="gen_%d_%s" % (mx, mn))
    # no deletion callback configured: same contract, nothing logged
    for mx, mn, depth in ([(3, 2, 5), (4, None, 5)] if ctx.quick else [(3, 2, 7), (4, None, 7), (4, 4, 6)]):
        eff = mn if mn else mx // 3
        sm.gen_replay(ctx, "BoundedDict", consts(keys, ["v1", "v2"], mx, eff, cb=False), depth, ad,
                      acfg={"max": mx, "min": mn, "cb": False}, invariants=INV, properties=PROPS,
                      label="gen_nocb_%d_%s" % (mx, mn))
    # code -> spec: random long histories, larger pools
    big = ["k%d" % i for i in range(12)]
    ntr = 150 if ctx.quick else 1500
    for mx, mn, cb in [(4, None, True), (7, 3, True), (9, None, False), (12, 5, True), (6, 6, True)]:
        eff = mn if mn else mx // 3
        acfg = {"max": mx, "min": mn, "keys": big, "cb": cb}
        traces = sm.record_traces(ad, acfg, gen_op, ntr, 40, ctx.rng)
        for tr in traces:
            for e in tr:
                e["st"] = to_trace_state(e["st"])
        c = consts(big, ["v1", "v2", "v3"], mx, eff, cb)
        sm.trace_validate(ctx, "BoundedDict", c, traces, label="trace_%d" % mx, tdo="TDo(e)")
        if mx == 7:
            def corrupt(ts):
                ev = ts[0][min(5, len(ts[0]) - 1)]
                ev["st"]["cb"] = list(ev["st"]["cb"]) + ["k0"]
                return "extra callback"
            sm.selftest_trace_binding(ctx, "BoundedDict", c, traces, corrupt, tdo="TDo(e)")
    ctx.assumptions += ["min_size >= 1 (max_size >= 3 or explicit min_size), min_size <= max_size",
                        "CPython reference counting runs __del__ when the last reference is dropped"]
    return "histories of Set/Get/Del/Contains/Destroy; every (abstract state, op) of the bounded instances replayed on miasm.core.utils.BoundedDict; random recorded histories validated by TLC"
