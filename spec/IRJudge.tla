------------------------------- MODULE IRJudge -------------------------------
(* Batch judge for recorded facts about IR programs, decided with IRMachine.tla.   *)
(*   [t |-> "symb", path, ids, mem, dst, w, regs, envs]                             *)
(*        one recorded symbolic execution (C12): path = the blocks the engine      *)
(*        executed in order; ids = <<[n, w, v]>> symbolic register values; mem =    *)
(*        <<[p, w, v]>> symbolic memory; dst = symbolic destination; regs = all     *)
(*        registers <<[n, w]>>; every expression is over the INITIAL state.         *)
(*   [t |-> "equiv", a, b, starta, startb, w, obs, envs, budget]                    *)
(*        two IR graphs (original / transformed) must have the same observable      *)
(*        behaviour (C36, C37, C40): same write log, same exit, same observed regs  *)
(*   [t |-> "lifted", blocks, regs, edges, irdst]   lifted blocks are well formed (C14) *)
EXTENDS IRMachine, Json, IOUtils, FiniteSets
VARIABLES lo, hi
Items == JsonDeserialize(IOEnv.ITEMS_FILE)
Init == lo = 1 /\ hi = Len(Items)
Next == /\ lo < hi
        /\ LET mid == (lo + hi) \div 2 IN
           \/ lo' = lo /\ hi' = mid
           \/ lo' = mid + 1 /\ hi' = hi
cur == lo

(* ---- C12 ---- *)
InRegion(a64, A, nbytes) == \E k \in 0..(nbytes - 1) : ZeroExt(Add(A, FromNat(k, Len(A))), 64) = a64
SymbCheck(it, env) ==
  LET r == RunPath(it.path, 1, env, it.w) IN
  IF ~r.ok THEN (IF r.unk THEN "unk" ELSE "undef")
  ELSE IF r.at # Len(it.path) + 1 THEN "left-path-before-block-" \o ToString(r.at)
  ELSE LET fin == r.env
           idv == [i \in 1..Len(it.ids) |-> Eval(it.ids[i].v, env)]
           mp == [i \in 1..Len(it.mem) |-> Eval(it.mem[i].p, env)]
           mv == [i \in 1..Len(it.mem) |-> Eval(it.mem[i].v, env)]
           dv == Eval(it.dst, env)
       IN IF (\E i \in 1..Len(idv) : idv[i].unk) \/ (\E i \in 1..Len(mp) : mp[i].unk \/ mv[i].unk) \/ dv.unk THEN "unk"
          ELSE IF (\E i \in 1..Len(idv) : ~idv[i].ok) \/ (\E i \in 1..Len(mp) : ~mp[i].ok \/ ~mv[i].ok) \/ ~dv.ok THEN "symbolic-state-undefined"
          ELSE IF \E i \in 1..Len(idv) : idv[i].v # FromBytes(fin.ids[it.ids[i].n], it.ids[i].w)
               THEN "register:" \o it.ids[CHOOSE i \in 1..Len(idv) : idv[i].v # FromBytes(fin.ids[it.ids[i].n], it.ids[i].w)].n
          ELSE IF \E j \in 1..Len(it.regs) : (\A i \in 1..Len(it.ids) : it.ids[i].n # it.regs[j].n)
                                             /\ FromBytes(fin.ids[it.regs[j].n], it.regs[j].w) # FromBytes(env.ids[it.regs[j].n], it.regs[j].w)
               THEN "register-changed-but-not-in-symbolic-state"
          ELSE IF \E i \in 1..Len(mp) : MemRead(mp[i].v, it.mem[i].w, fin) # mv[i].v
               THEN "memory:" \o ToString(CHOOSE i \in 1..Len(mp) : MemRead(mp[i].v, it.mem[i].w, fin) # mv[i].v)
          ELSE IF \E k \in 1..Len(fin.wr) : /\ fin.wr[k][2] # MemByte(fin.wr[k][1], env.seed)
                                            /\ WrLookup(fin.wr[k][1], fin.wr, 1) = fin.wr[k][2]
                                            /\ ~\E i \in 1..Len(mp) : InRegion(fin.wr[k][1], mp[i].v, it.mem[i].w \div 8)
               THEN "memory-write-missing-from-symbolic-state"
          ELSE IF dv.v # DstVal(fin, it.w) THEN "destination"
          ELSE "ok"
RECURSIVE FirstBadSymb(_, _)
FirstBadSymb(it, k) ==
  IF k > Len(it.envs) THEN "ok"
  ELSE LET v == SymbCheck(it, it.envs[k]) IN
       IF v \in {"ok", "undef"} THEN FirstBadSymb(it, k + 1)
       ELSE IF v = "unk" THEN "unk" ELSE "bad:" \o ToString(k) \o ":" \o v

(* ---- C36 / C37 / C40: observable equivalence of two graphs ---- *)
StartIdx(prog, name) == CHOOSE i \in 1..Len(prog) : prog[i].loc = name
(* the observable write log: bytes whose final content differs from the initial memory, as a set of <<address, byte>> *)
FinalWrites(env) == {<<env.wr[k][1], env.wr[k][2]>> : k \in {j \in 1..Len(env.wr) : WrLookup(env.wr[j][1], env.wr, 1) = env.wr[j][2]
                                                                               /\ env.wr[j][2] # MemByte(env.wr[j][1], env.seed)}}
(* the write log (newest first) without the byte writes that store the value the byte already holds *)
RECURSIVE EffectiveFrom(_, _, _)
EffectiveFrom(wr, i, seed) ==       \* i runs from the oldest entry (Len) down to 1
  IF i = 0 THEN <<>>
  ELSE LET older == SubSeq(wr, i + 1, Len(wr))
           prev == WrLookup(wr[i][1], older, 1)
           curv == IF prev # <<>> THEN prev ELSE MemByte(wr[i][1], seed)
           rest == EffectiveFrom(wr, i - 1, seed) IN
       IF curv = wr[i][2] THEN rest ELSE rest \o <<wr[i]>>
Effective(wr, seed) == EffectiveFrom(wr, Len(wr), seed)
EquivCheck(it, env) ==
  LET ra == RunGraph(it.a, StartIdx(it.a, it.starta), env, it.w, it.budget)
      rb == RunGraph(it.b, StartIdx(it.b, it.startb), env, it.w, it.budget) IN
  IF ra.unk \/ rb.unk THEN "unk"
  ELSE IF ~ra.ok THEN "undef"                          \* the original is undefined here: nothing is required
  ELSE IF ra.exit = "budget" THEN "budget"
  ELSE IF ~rb.ok THEN "transformed-undefined"
  ELSE IF rb.exit = "budget" THEN "transformed-does-not-terminate-in-budget"
  ELSE IF DstVal(ra.env, it.w) # DstVal(rb.env, it.w) THEN "exit"
  ELSE IF (IF it.ordered THEN ra.env.wr # rb.env.wr ELSE FinalWrites(ra.env) # FinalWrites(rb.env))
       THEN (IF it.ordered /\ Effective(ra.env.wr, env.seed) = Effective(rb.env.wr, env.seed)
             THEN "only-writes-of-the-value-already-there-differ" ELSE "memory-writes")
  ELSE IF \E i \in 1..Len(it.obs) : FromBytes(ra.env.ids[it.obs[i].a], it.obs[i].w) # FromBytes(rb.env.ids[it.obs[i].b], it.obs[i].w)
       THEN "register:" \o it.obs[CHOOSE i \in 1..Len(it.obs) : FromBytes(ra.env.ids[it.obs[i].a], it.obs[i].w) # FromBytes(rb.env.ids[it.obs[i].b], it.obs[i].w)].a
  ELSE "ok"
RECURSIVE FirstBadEquiv(_, _)
FirstBadEquiv(it, k) ==
  IF k > Len(it.envs) THEN "ok"
  ELSE LET v == EquivCheck(it, it.envs[k]) IN
       IF v \in {"ok", "undef", "budget"} THEN FirstBadEquiv(it, k + 1)
       ELSE IF v = "unk" THEN "unk" ELSE "bad:" \o ToString(k) \o ":" \o v

(* ---- C14: well-formedness of lifted blocks and of the graph built from them ---- *)
(*   [t |-> "lifted", blocks, regs (names the architecture declares), edges <<[s, d]>>, irdst,            *)
(*    offs <<[v |-> offset bytes, loc]>> (the location database's offsets)]                               *)
RECURSIVE IdsOf(_)
IdsOf(e) ==
  CASE e.k = "id" -> {e.n}
    [] e.k = "int" -> {}
    [] e.k = "mem" -> IdsOf(e.p)
    [] e.k = "slice" -> IdsOf(e.a)
    [] e.k = "cond" -> IdsOf(e.c) \cup IdsOf(e.t) \cup IdsOf(e.f)
    [] e.k \in {"op", "compose"} -> UNION {IdsOf(e.a[i]) : i \in 1..Len(e.a)}
IsLocName(n) == Len(n) > 4 /\ SubSeq(n, 1, 4) = "loc_"
(* locations the destination can take: leaves of the conditional tree *)
RECURSIVE DstLocs(_, _)
DstLocs(e, it) == CASE e.k = "cond" -> DstLocs(e.t, it) \cup DstLocs(e.f, it)
                    [] e.k = "id" -> IF IsLocName(e.n) THEN {e.n} ELSE {}
                    [] e.k = "int" ->      \* a constant destination designates the location registered at that offset
                         IF \E k \in 1..Len(it.offs) : it.offs[k].v = e.v
                         THEN {it.offs[CHOOSE k \in 1..Len(it.offs) : it.offs[k].v = e.v].loc}
                         ELSE {"<no location at constant destination>"}
                    [] OTHER -> {}
Assigns(b) == UNION {{b.abs[a][i] : i \in 1..Len(b.abs[a])} : a \in 1..Len(b.abs)}
DstAssigns(b, irdst) == {<<a, i>> \in UNION {{<<a, i>> : i \in 1..Len(b.abs[a])} : a \in 1..Len(b.abs)} :
                           b.abs[a][i].d.k = "id" /\ b.abs[a][i].d.n = irdst}
BlockVerdict(b, it) ==
  IF \E x \in Assigns(b) : ~DstOK(x.d) THEN "destination-not-register-or-memory"
  ELSE IF \E x \in Assigns(b) : x.d.w # x.s.w THEN "width-mismatch"
  ELSE IF Cardinality(DstAssigns(b, it.irdst)) # 1 THEN "irdst-set-" \o ToString(Cardinality(DstAssigns(b, it.irdst))) \o "-times"
  ELSE IF \E x \in Assigns(b) : \E n \in IdsOf(x.s) \cup IdsOf(x.d) :
              ~IsLocName(n) /\ n # it.irdst /\ \A r \in 1..Len(it.regs) : it.regs[r] # n
       THEN "unknown-register:" \o (CHOOSE n \in UNION {IdsOf(x.s) \cup IdsOf(x.d) : x \in Assigns(b)} :
                                      ~IsLocName(n) /\ n # it.irdst /\ \A r \in 1..Len(it.regs) : it.regs[r] # n)
  ELSE LET p == CHOOSE q \in DstAssigns(b, it.irdst) : TRUE
           locs == DstLocs(b.abs[p[1]][p[2]].s, it) IN
       IF \E l \in locs : ~\E k \in 1..Len(it.edges) : it.edges[k].s = b.loc /\ it.edges[k].d = l
       THEN "missing-edge-to:" \o (CHOOSE l \in locs : ~\E k \in 1..Len(it.edges) : it.edges[k].s = b.loc /\ it.edges[k].d = l)
       ELSE "ok"
TypeCheck(it) ==
  IF \E b \in 1..Len(it.blocks) : BlockVerdict(it.blocks[b], it) # "ok"
  THEN LET b == CHOOSE c \in 1..Len(it.blocks) : BlockVerdict(it.blocks[c], it) # "ok" IN
       "bad:" \o it.blocks[b].loc \o ":" \o BlockVerdict(it.blocks[b], it)
  ELSE "ok"

(* ---- C37: validity of an SSA graph.  [t |-> "ssa", blocks, edges <<[s, d]>>, head, immut <<names>>] ---- *)
(* dominance by its definition over paths (as in Graph.tla), on block names *)
SuccN(E, n) == {E[i].d : i \in {j \in 1..Len(E) : E[j].s = n}}
RECURSIVE ReachN(_, _, _)
ReachN(E, S, Avoid) == LET nxt == (S \cup UNION {SuccN(E, n) : n \in S}) \ Avoid IN IF nxt = S THEN S ELSE ReachN(E, nxt, Avoid)
DominatesN(E, h, d, n) == d = n \/ d = h \/ n \notin ReachN(E, {h} \ {d}, {d})
PredN(E, n) == {E[i].s : i \in {j \in 1..Len(E) : E[j].d = n}}
IsPhi(e) == e.k = "op" /\ e.op = "Phi"
(* definition sites <<block index, assign block index>> of a variable *)
DefSites(blocks, v) == {<<b, a>> \in UNION {{<<b, a>> : a \in 1..Len(blocks[b].abs)} : b \in 1..Len(blocks)} :
                          \E i \in 1..Len(blocks[b].abs[a]) : blocks[b].abs[a][i].d.k = "id" /\ blocks[b].abs[a][i].d.n = v}
SsaVerdict(it) ==
  LET B == it.blocks
      tracked(v) == ~IsLocName(v) /\ \A k \in 1..Len(it.immut) : it.immut[k] # v
      allvars == UNION {UNION {UNION {IdsOf(B[b].abs[a][i].d) \cup IdsOf(B[b].abs[a][i].s) : i \in 1..Len(B[b].abs[a])}
                               : a \in 1..Len(B[b].abs)} : b \in 1..Len(B)}
      vars == {v \in allvars : tracked(v)}
      multi == {v \in vars : Cardinality(DefSites(B, v)) > 1}
      (* a use of v at (b, a) in a non-phi source (or in a pointer of a destination) *)
      usesAt(b, a) == UNION {(IF IsPhi(B[b].abs[a][i].s) THEN {} ELSE IdsOf(B[b].abs[a][i].s))
                             \cup (IF B[b].abs[a][i].d.k = "mem" THEN IdsOf(B[b].abs[a][i].d.p) ELSE {}) : i \in 1..Len(B[b].abs[a])}
      badUse == {<<b, a, v>> \in UNION {UNION {{<<b, a, v>> : v \in usesAt(b, a) \cap vars} : a \in 1..Len(B[b].abs)} : b \in 1..Len(B)} :
                   /\ DefSites(B, v) # {}
                   /\ LET d == CHOOSE x \in DefSites(B, v) : TRUE IN
                      IF d[1] = b THEN ~(d[2] < a)
                      ELSE ~(B[b].loc \in ReachN(it.edges, {it.head}, {}) => DominatesN(it.edges, it.head, B[d[1]].loc, B[b].loc))}
      phiArgs(b, a) == UNION {IF IsPhi(B[b].abs[a][i].s) THEN IdsOf(B[b].abs[a][i].s) ELSE {} : i \in 1..Len(B[b].abs[a])}
      badPhi == {<<b, a, v>> \in UNION {UNION {{<<b, a, v>> : v \in phiArgs(b, a) \cap vars} : a \in 1..Len(B[b].abs)} : b \in 1..Len(B)} :
                   /\ DefSites(B, v) # {}
                   /\ B[b].loc \in ReachN(it.edges, {it.head}, {})
                   /\ LET d == CHOOSE x \in DefSites(B, v) : TRUE IN
                      ~\E p \in PredN(it.edges, B[b].loc) : DominatesN(it.edges, it.head, B[d[1]].loc, p)}
  IN IF multi # {} THEN "bad:defined-more-than-once:" \o (CHOOSE v \in multi : TRUE)
     ELSE IF badUse # {} THEN "bad:use-not-dominated-by-definition:" \o (CHOOSE x \in badUse : TRUE)[3]
     ELSE IF badPhi # {} THEN "bad:phi-argument-not-defined-along-a-predecessor:" \o (CHOOSE x \in badPhi : TRUE)[3]
     ELSE "ok"

(* ---- C38: data-flow facts by their path definitions.                                                         *)
(*   [t |-> "dflow", blocks, edges, out <<names live at the exits>>,                                              *)
(*    rd <<[b, i, v, defs <<<<b, i>>..>>]>>, du <<[sb, si, sv, db, di, dk]>>, live <<[b, i, vin, vout]>>]          *)
(* Points are <<block index, k>> with k assign blocks of the block already executed (k = 0 .. length).            *)
DfWrites(ab) == {ab[i].d.n : i \in {j \in 1..Len(ab) : ab[j].d.k = "id"}}
DfReadsOf(a) == {v \in IdsOf(a.s) \cup (IF a.d.k = "mem" THEN IdsOf(a.d.p) ELSE {}) : ~IsLocName(v)}      \* locations are constants
DfReads(ab) == UNION {DfReadsOf(ab[i]) : i \in 1..Len(ab)}
BIdx(B, name) == CHOOSE b \in 1..Len(B) : B[b].loc = name
SuccB(it, b) == {BIdx(it.blocks, n) : n \in {x \in SuccN(it.edges, it.blocks[b].loc) : \E c \in 1..Len(it.blocks) : it.blocks[c].loc = x}}
(* points reachable from the set S along executions on which v is not (re)defined *)
RECURSIVE FlowNoDef(_, _, _)
FlowNoDef(it, S, v) ==
  LET B == it.blocks
      step(p) == IF p[2] < Len(B[p[1]].abs)
                 THEN (IF v \in DfWrites(B[p[1]].abs[p[2] + 1]) THEN {} ELSE {<<p[1], p[2] + 1>>})
                 ELSE {<<s, 0>> : s \in SuccB(it, p[1])}
      nxt == S \cup UNION {step(p) : p \in S}
  IN IF nxt = S THEN S ELSE FlowNoDef(it, nxt, v)
AllPoints(it) == UNION {{<<b, k>> : k \in 0..Len(it.blocks[b].abs)} : b \in 1..Len(it.blocks)}
AllDefs(it) == UNION {UNION {{<<b, i, v>> : v \in DfWrites(it.blocks[b].abs[i + 1])} : i \in 0..(Len(it.blocks[b].abs) - 1)} : b \in 1..Len(it.blocks)}
(* definition <<b, i, v>> reaches point p: some execution from just after it to p does not redefine v *)
ReachSet(it, d) == FlowNoDef(it, {<<d[1], d[2] + 1>>}, d[3])
(* v is live at p: some execution from p reads v before writing it (or leaves the function with v observed) *)
LiveAt(it, p, v) ==
  \E q \in FlowNoDef(it, {p}, v) :
     IF q[2] < Len(it.blocks[q[1]].abs) THEN v \in DfReads(it.blocks[q[1]].abs[q[2] + 1])
     ELSE SuccB(it, q[1]) = {} /\ \E k \in 1..Len(it.out) : it.out[k] = v
DflowVerdict(it) ==
  LET B == it.blocks
      defs == AllDefs(it)
      reach == [d \in defs |-> ReachSet(it, d)]
      rdExp == UNION {{<<p[1], p[2], d[3], d[1], d[2]>> : p \in reach[d]} : d \in defs}
      rdObs == UNION {{<<BIdx(B, it.rd[k].b), it.rd[k].i, it.rd[k].v, BIdx(B, it.rd[k].defs[j][1]), it.rd[k].defs[j][2]>>
                        : j \in 1..Len(it.rd[k].defs)} : k \in 1..Len(it.rd)}
      duExp == UNION {UNION {{<<d[1], d[2], d[3], p[1], p[2], k>> :
                               k \in {kk \in 1..Len(B[p[1]].abs[p[2] + 1]) : d[3] \in DfReadsOf(B[p[1]].abs[p[2] + 1][kk])}}
                             : p \in {q \in reach[d] : q[2] < Len(B[q[1]].abs)}} : d \in defs}
      duObs == {<<BIdx(B, it.du[k].sb), it.du[k].si, it.du[k].sv, BIdx(B, it.du[k].db), it.du[k].di, it.du[k].dk>> : k \in 1..Len(it.du)}
      vars == UNION {UNION {DfWrites(B[b].abs[a]) \cup DfReads(B[b].abs[a]) : a \in 1..Len(B[b].abs)} : b \in 1..Len(B)}
              \cup {it.out[k] : k \in 1..Len(it.out)}
      liveBad == {k \in 1..Len(it.live) :
                    LET b == BIdx(B, it.live[k].b) i == it.live[k].i IN
                    \/ {it.live[k].vin[j] : j \in 1..Len(it.live[k].vin)} # {v \in vars : LiveAt(it, <<b, i>>, v)}
                    \/ {it.live[k].vout[j] : j \in 1..Len(it.live[k].vout)} # {v \in vars : LiveAt(it, <<b, i + 1>>, v)}}
  IN IF rdObs # rdExp THEN "bad:reaching-definitions:" \o ToString(CHOOSE x \in (rdObs \ rdExp) \cup (rdExp \ rdObs) : TRUE)
                             \o (IF rdObs \ rdExp # {} THEN ":reported-but-no-path" ELSE ":path-exists-but-not-reported")
     ELSE IF duObs # duExp THEN "bad:def-use:" \o ToString(CHOOSE x \in (duObs \ duExp) \cup (duExp \ duObs) : TRUE)
     ELSE IF liveBad # {} THEN LET k == CHOOSE x \in liveBad : TRUE b == BIdx(B, it.live[k].b) i == it.live[k].i IN
                              "bad:liveness:" \o it.live[k].b \o ":" \o ToString(i) \o ":expected-in=" \o ToString({v \in vars : LiveAt(it, <<b, i>>, v)})
                              \o ":expected-out=" \o ToString({v \in vars : LiveAt(it, <<b, i + 1>>, v)})
     ELSE "ok"

(* ---- C39: dependency-graph slices.                                                                            *)
(*   [t |-> "slice", path (the full blocks of the history in execution order, the last one cut at the queried line), *)
(*    vals <<[n, w, v]>> (value of each queried element computed from the SLICE, over the initial state), envs]       *)
(*   [t |-> "pathcond", path, w, sat <<BOOLEAN per environment>>, envs]: the solver's verdict on the path constraints  *)
RECURSIVE RunSeq(_, _, _)
RunSeq(path, i, env) ==                  \* executes the blocks one after the other, whatever IRDst says
  IF i > Len(path) THEN [ok |-> TRUE, unk |-> FALSE, env |-> env]
  ELSE LET r == StepBlock(path[i].abs, 1, env) IN IF r.ok THEN RunSeq(path, i + 1, r.env) ELSE r
SliceCheck(it, env) ==
  LET r == RunSeq(it.path, 1, env) IN
  IF ~r.ok THEN (IF r.unk THEN "unk" ELSE "undef")
  ELSE LET vs == [i \in 1..Len(it.vals) |-> Eval(it.vals[i].v, env)] IN
       IF \E i \in 1..Len(vs) : vs[i].unk THEN "unk"
       ELSE IF \E i \in 1..Len(vs) : ~vs[i].ok THEN "slice-value-undefined"
       ELSE IF \E i \in 1..Len(vs) : vs[i].v # FromBytes(r.env.ids[it.vals[i].n], it.vals[i].w)
            THEN "element:" \o it.vals[CHOOSE i \in 1..Len(vs) : vs[i].v # FromBytes(r.env.ids[it.vals[i].n], it.vals[i].w)].n
       ELSE "ok"
RECURSIVE FirstBadSlice(_, _)
FirstBadSlice(it, k) ==
  IF k > Len(it.envs) THEN "ok"
  ELSE LET v == SliceCheck(it, it.envs[k]) IN
       IF v \in {"ok", "undef"} THEN FirstBadSlice(it, k + 1) ELSE IF v = "unk" THEN "unk" ELSE "bad:" \o ToString(k) \o ":" \o v
(* does concrete execution follow the history?  after each block but the last, IRDst must designate the next block *)
RECURSIVE Follows(_, _, _, _)
Follows(path, i, env, w) ==
  IF i > Len(path) THEN "yes"
  ELSE LET r == StepBlock(path[i].abs, 1, env) IN
       IF ~r.ok THEN (IF r.unk THEN "unk" ELSE "undef")
       ELSE IF i < Len(path) /\ DstVal(r.env, w) # LocVal(r.env, path[i + 1].loc, w) THEN "no"
       ELSE Follows(path, i + 1, r.env, w)
RECURSIVE FirstBadCond(_, _)
FirstBadCond(it, k) ==
  IF k > Len(it.envs) THEN "ok"
  ELSE LET f == Follows(it.path, 1, it.envs[k], it.w) IN
       IF f = "unk" THEN "unk"
       ELSE IF f = "undef" THEN FirstBadCond(it, k + 1)
       ELSE IF (f = "yes") # it.sat[k] THEN "bad:" \o ToString(k) \o ":constraints-" \o (IF it.sat[k] THEN "satisfied" ELSE "violated")
                                             \o "-but-execution-" \o (IF f = "yes" THEN "follows" ELSE "leaves") \o "-the-history"
       ELSE FirstBadCond(it, k + 1)

(* ---- C41: a new input produced by dynamic symbolic execution for an unexplored branch ---- *)
(*   [t |-> "dse", prog, start, w, budget, sols: <<[env, dst (block name), prev (address inside the block the branch leaves)]>>,       *)
(*    ranges: <<[loc, lo, hi]>> address range of every block]                                                                     *)
(* the reference execution of the program from the new input must go to block dst right after the block containing prev          *)
RangeOf(it, name) == it.ranges[CHOOSE i \in 1..Len(it.ranges) : it.ranges[i].loc = name]
TakesBranch(it, s) ==
  LET r == RunGraph(it.prog, StartIdx(it.prog, it.start), s.env, it.w, it.budget) IN
  IF ~r.ok THEN (IF r.unk THEN "unk" ELSE "undef")
  ELSE IF \E i \in 1..(Len(r.trace) - 1) :
            /\ it.prog[r.trace[i + 1]].loc = s.dst
            /\ RangeOf(it, it.prog[r.trace[i]].loc).lo <= s.prev /\ s.prev < RangeOf(it, it.prog[r.trace[i]].loc).hi
       THEN "ok"
       ELSE IF \E i \in 1..Len(r.trace) : it.prog[r.trace[i]].loc = s.dst THEN "reaches-the-block-but-not-through-that-branch"
       ELSE "does-not-take-the-branch"
RECURSIVE FirstBadDse(_, _)
FirstBadDse(it, i) == IF i > Len(it.sols) THEN "ok"
                      ELSE LET v == TakesBranch(it, it.sols[i]) IN
                           IF v \in {"ok", "unk"} THEN FirstBadDse(it, i + 1) ELSE "bad:" \o ToString(i) \o ":" \o v

Verdict(it) ==
  CASE it.t = "symb" -> FirstBadSymb(it, 1)
    [] it.t = "equiv" -> FirstBadEquiv(it, 1)
    [] it.t = "lifted" -> TypeCheck(it)
    [] it.t = "ssa" -> SsaVerdict(it)
    [] it.t = "dflow" -> DflowVerdict(it)
    [] it.t = "slice" -> FirstBadSlice(it, 1)
    [] it.t = "pathcond" -> FirstBadCond(it, 1)
    [] it.t = "dse" -> FirstBadDse(it, 1)
Report == lo < hi \/ PrintT("V " \o ToString(cur) \o " " \o Verdict(Items[cur]))
=============================================================================
