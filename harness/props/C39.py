"""C39 dependency-graph slices are faithful: explicit slices compute the same element values as the full blocks along the
history; implicit path constraints hold exactly when concrete execution follows the history."""
from .. import core
from .. import exprjson as X
from .. import irjson as J
from .. import irequiv as Q
from .. import asmgen

REGS32 = ["EAX", "EBX", "ECX", "EDX", "ESI", "EDI", "EBP", "ESP"]
FLAGS = ["zf", "cf", "nf", "of", "pf", "af"]


def cut_block_json(irb, line):
    bj = J.block_json(irb)
    return {"loc": bj["loc"], "abs": bj["abs"][:line]}


def without_omitted_stores(ircfg, hist, line, sol):
    """the full blocks of the history minus the memory stores the slice does not contain"""
    rel = set((n.loc_key, n.line_nb, n.element) for n in sol.relevant_nodes)
    out = []
    for k, lk in enumerate(hist):
        irb = ircfg.blocks[lk]
        bj = J.block_json(irb)
        abs_ = []
        for i, ab in enumerate(irb):
            if k == len(hist) - 1 and i >= line:
                break
            keep = []
            for (dst, src), aj in zip(ab.items(), bj["abs"][i]):
                if dst.is_mem() and (lk, i, dst) not in rel:
                    continue
                keep.append(aj)
            abs_.append(keep)
        out.append({"loc": bj["loc"], "abs": abs_})
    return out


def z3_truth(z3, term, env, sizes):
    """truth value of a z3 constraint under a concrete environment (registers substituted, memory selects replaced)"""
    subs = [(z3.BitVec(nm, w), z3.BitVecVal(int.from_bytes(bytes(env["ids"][nm]), "little"), w)) for nm, w in sizes.items()
            if nm in env["ids"]]
    t = z3.simplify(z3.substitute(term, *subs)) if subs else z3.simplify(term)
    for _ in range(200):
        if z3.is_true(t) or z3.is_false(t):
            break
        sel = None
        todo, seen = [t], set()
        while todo:
            x = todo.pop()
            if x.get_id() in seen:
                continue
            seen.add(x.get_id())
            if z3.is_select(x) and z3.is_bv_value(x.arg(1)) and z3.is_const(x.arg(0)):
                sel = x
                break
            todo.extend(x.children())
        if sel is None:
            break
        t = z3.simplify(z3.substitute(t, (sel, z3.BitVecVal(X.mem_byte(sel.arg(1).as_long(), env["seed"]), 8))))
    if z3.is_true(t):
        return True
    if z3.is_false(t):
        return False
    return None


def run(ctx):
    from miasm.analysis.machine import Machine
    from miasm.analysis.depgraph import DependencyGraph
    import miasm.expression.expression as m
    try:
        import z3
    except ImportError:
        raise core.MachineryError("z3 python bindings missing: run setup.sh")
    q = ctx.quick
    rng = ctx.rng
    machine = Machine("x86_32")
    items, meta, alt = [], [], []
    undecided = 0
    for n in range(160 if q else 1500):
        gen = asmgen.AsmGen(rng, loops=False, split_cells=rng.random() < 0.5)
        src = gen.function(nseg=rng.randrange(1, 4))
        try:
            loc_db, lifter, cfg, head, make = asmgen.build(machine, src)
        except Exception:
            continue
        ircfg = make()
        blocks = list(ircfg.blocks.values())
        for implicit in (False, True):
            target = rng.choice(blocks)
            line = rng.choice([0, len(target), rng.randrange(0, len(target) + 1)])
            elems = set(m.ExprId(r, 32) for r in rng.sample(REGS32[:6], 2))
            dg = DependencyGraph(ircfg, implicit=implicit, apply_simp=True, follow_mem=True, follow_call=False)
            try:
                sols = list(dg.get(target.loc_key, elems, line, set([head])))
            except Exception as ex:
                ctx.violation("depgraph-raised", {"source": src, "raised": type(ex).__name__ + ":" + str(ex)[:200]})
                continue
            sols.sort(key=lambda s_: [lk.key for lk in s_.history])
            for sol in sols[:6]:
                hist = list(reversed(sol.history))          # execution order; the last one is the queried block
                try:
                    full = [J.block_json(ircfg.blocks[lk]) for lk in hist[:-1]] + [cut_block_json(ircfg.blocks[hist[-1]], line)]
                    vals = sol.emul(lifter)
                    jvals = [{"n": e.name, "w": e.size, "v": X.to_json(v)} for e, v in vals.items()]
                except ValueError:
                    continue
                except Exception as ex:
                    ctx.violation("slice-emulation-raised", {"source": src, "implicit": implicit, "raised": type(ex).__name__ + ":" + str(ex)[:200]})
                    continue
                sizes = Q.sizes_of(full)
                for jv in jvals:
                    sizes.update({k: w for k, w in Q.sizes_of([{"loc": "loc_0", "abs": [[{"d": {"k": "id", "w": jv["w"], "n": jv["n"]}, "s": jv["v"]}]]}]).items()})
                for f in FLAGS:
                    sizes[f] = 1
                sizes["IRDst"] = 32
                envs = Q.make_envs(rng, sizes, 6, REGS32, ())
                items.append({"t": "slice", "path": full, "vals": jvals, "envs": envs})
                meta.append(("implicit-values" if implicit else "explicit-slice", src, J.loc_name(target.loc_key), line, sorted(e.name for e in elems)))
                alt.append({"t": "slice", "path": without_omitted_stores(ircfg, hist, line, sol), "vals": jvals, "envs": envs})
                if implicit:
                    cons = z3.And(*sol._solver.assertions()) if sol._solver.assertions() else z3.BoolVal(True)
                    zs = {nm: w for nm, w in sizes.items() if not nm.startswith("loc_")}
                    sat = [z3_truth(z3, cons, e, zs) for e in envs]
                    keep = [(e, s_) for e, s_ in zip(envs, sat) if s_ is not None]
                    undecided += len(envs) - len(keep)
                    if keep:
                        items.append({"t": "pathcond", "path": full, "w": 32, "sat": [s_ for _, s_ in keep], "envs": [e for e, _ in keep]})
                        meta.append(("implicit-constraints", src, J.loc_name(target.loc_key), line, sorted(e.name for e in elems)))
                        alt.append(dict(items[-1], path=alt[-1]["path"]))
    verdicts = X.judge(ctx, items, label="c39", module="IRJudge", chunk=500)
    counts = {}
    # known finding: a load whose cell was stored earlier through a syntactically different address (ESP-relative after a push,
    # an overlapping narrower store, ...) - the tracker matches memory destinations syntactically and leaves the store out.
    # Trigger: the mismatch disappears when exactly the stores the slice omitted are removed from the full blocks.
    bad = [k for k, v in enumerate(verdicts) if v.startswith("bad") and alt[k] is not None]
    alias = set()
    if bad:
        v2 = X.judge(ctx, [alt[k] for k in bad], label="c39alias", module="IRJudge", chunk=500)
        alias = set(k for k, v in zip(bad, v2) if v == "ok")
    for k, (v, mt) in enumerate(zip(verdicts, meta)):
        key = mt[0] + ":" + v.split(":")[0] + (":untracked-aliasing-store" if k in alias else "")
        counts[key] = counts.get(key, 0) + 1
        if k in alias and "untracked-aliasing-store" in ctx.findings:
            ctx.known("untracked-aliasing-store", "%s of %s line %d in %r" % (v, mt[2], mt[3], mt[1][:120]))
            continue
        if v.startswith("bad"):
            ctx.violation("dependency-solution-unfaithful", {"what": mt[0], "source": mt[1], "target_block": mt[2], "line": mt[3], "elements": mt[4], "verdict": v})
    ctx.traces += len(items)
    ctx.evaluations += sum(len(i["envs"]) for i in items)
    ctx.distinct = set(mt[:4] for mt in meta)
    for k in (0, len(meta) // 2, len(meta) - 1):
        ctx.sample({"what": meta[k][0], "source": meta[k][1][:300], "target": meta[k][2], "line": meta[k][3], "tlc_verdict": verdicts[k]})
    ctx.notes["verdicts"] = counts
    ctx.notes["constraint_valuations_the_solver_could_not_decide"] = undecided
    ctx.notes["constraint_valuations"] = {"true": sum(i["sat"].count(True) for i in items if i["t"] == "pathcond"),
                                          "false": sum(i["sat"].count(False) for i in items if i["t"] == "pathcond")}
    ctx.assumptions += ["loop-free IR graphs (random structured x86-32 functions without loops or calls)",
                        "IRMachine.tla executes the full blocks of the history; the value computed from the slice is the expression "
                        "returned by DependencyResult.emul, evaluated by TLC over the same initial state",
                        "path constraints are evaluated with z3 under each concrete initial state"]
    return ("for loop-free lifted x86-32 functions, random target block / line / pair of registers: every dependency solution's "
            "emul() value (from the sliced assignments) must equal the value after TLC executes the FULL blocks along the same "
            "history; in implicit mode the solver's path constraints must hold under an initial state exactly when TLC's execution "
            "follows the history block by block")
