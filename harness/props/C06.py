"""C06 SMT-LIB2 translation agrees with the reference semantics (Expr.tla); the text is evaluated by /usr/bin/z3."""
import os
import subprocess

from .. import core, transcheck
from .. import exprjson as X

Z3BIN = "/usr/bin/z3"


def bv(v, w):
    return "(_ bv%d %d)" % (v, w)


class Batch(object):
    """collects (term, declarations) and evaluates them with one solver process per flush"""

    def __init__(self, ctx):
        self.ctx = ctx
        self.n = 0


def make_eval(ctx, endian_flag):
    from miasm.ir.translators.smt2 import TranslatorSMT2
    d = ctx.sub("smt2")
    counter = [0]

    def translate_eval(e, sizes, envs):
        tr = TranslatorSMT2(endianness=endian_flag)
        term = tr.from_expr(e)
        lines = []
        for env in envs:
            lines.append("(push)")
            for nm, w in tr._bitvectors.items():
                lines.append("(define-fun %s () (_ BitVec %d) %s)" % (nm, w, bv(env["ids"].get(nm, 0), w)))
            for asize, mname in tr._mem.mems.items():
                if asize >= 16:
                    lo, hi = "((_ extract 7 0) x)", "((_ extract 15 8) x)"
                elif asize > 8:
                    lo, hi = "((_ extract 7 0) x)", "((_ zero_extend %d) ((_ extract %d 8) x))" % (16 - asize, asize - 1)
                else:
                    lo = "((_ zero_extend %d) x)" % (8 - asize) if asize < 8 else "x"
                    hi = "#x00"
                lines.append("(define-fun %s () (Array (_ BitVec %d) (_ BitVec 8)) (lambda ((x (_ BitVec %d))) "
                             "(bvadd %s (bvmul #x1f %s) %s)))" % (mname, asize, asize, lo, hi, bv(env["seed"], 8)))
            lines.append("(simplify %s)" % term)
            lines.append("(pop)")
        counter[0] += 1
        f = os.path.join(d, "q%d.smt2" % (counter[0] % 8))
        with open(f, "w") as fh:
            fh.write("\n".join(lines) + "\n")
        p = subprocess.run([Z3BIN, f], capture_output=True, text=True, timeout=120)
        out = [l.strip() for l in p.stdout.splitlines() if l.strip()]
        vals = []
        for l in out:
            if l.startswith("#x"):
                vals.append(int(l[2:], 16))
            elif l.startswith("#b"):
                vals.append(int(l[2:], 2))
            else:
                raise RuntimeError("solver did not reduce the SMT-LIB2 term to a numeral: %s" % l[:200])
        if len(vals) != len(envs):
            raise RuntimeError("solver output: %s" % (p.stdout + p.stderr)[:300])
        return vals
    return translate_eval


def run(ctx):
    q = ctx.quick
    small, exprs = transcheck.corpus(ctx, 500 if q else 6000, 150 if q else 2000, (1, 2) if q else (1, 2, 3),
                                     widths=[1, 8, 16, 32, 64], odd=[3, 7, 24])
    if q:
        small = ctx.rng.sample(small, min(len(small), 1500))
    n = transcheck.run_translator(ctx, "C06", "smt2_le", make_eval(ctx, "<"), small, exprs, nenv=4)
    n += transcheck.run_translator(ctx, "C06", "smt2_be", make_eval(ctx, ">"), [], exprs[:len(exprs) // 3], nenv=3,
                                   endians=("big",))
    ctx.assumptions += ["Expr.tla/BV.tla is the reference; /usr/bin/z3 evaluates the emitted SMT-LIB2 text",
                        "operators for which the translator raises NotImplementedError are unsupported (legal)"]
    return ("expressions (enumerated small trees under all valuations, random and rule-shaped trees at widths 1..64) "
            "translated by TranslatorSMT2; the SMT-LIB2 term is evaluated by the z3 binary under define-fun bindings of the "
            "valuation (memory = lambda array) and judged by TLC against Expr.tla; both byte orders")
