"""Abstract-ISA programs of spec/JitMachine.tla materialised as x86-32 code and played on the real jitters.

A script (list of commands) is played on ONE jitter instance (one backend, one configuration); after every run / cont the
observable state is recorded.  TLC (JitJudge.tla) plays the same script on the reference CPU."""
import os

from . import core

CODE = 0x40000000
DATA = 0x50000000
STACK_BASE = 0x60000000
STACK_SIZE = 0x1000
STACK_TOP = STACK_BASE + STACK_SIZE
STACK_FILL = b"\x5a"


def encode(prog):
    """bytes of the program and the byte offset of every slot (+ the end offset)"""
    # pass 1: lengths
    lens = []
    for ins in prog:
        k = ins["k"]
        lens.append({"RT": 4, "PU": 2, "DEC": 1, "JNZ": 2, "JMP": 2, "LOOP": 2, "ST": 7, "ST4": 10, "LD": 5, "PATCH": 7, "PATCHS": 1, "PUM": 6, "INCM": 6}[k])
    offs = [0]
    for l in lens:
        offs.append(offs[-1] + l)
    out = bytearray()
    for n, ins in enumerate(prog):
        k = ins["k"]
        if k == "RT":
            out += bytes([0x8d, 0x44, 0x40, ins["i"]])
        elif k == "PU":
            out += bytes([0x6a, ins["i"]])
        elif k == "DEC":
            out += b"\x49"
        elif k in ("JNZ", "JMP", "LOOP"):
            rel = offs[ins["t"]] - offs[n + 1]
            if not -128 <= rel <= 127:
                raise ValueError("branch out of rel8 range")
            out += bytes([{"JNZ": 0x75, "JMP": 0xeb, "LOOP": 0xe2}[k], rel & 0xff])
        elif k == "ST":
            out += b"\xc6\x05" + ins["a"].to_bytes(4, "little") + bytes([ins["v"]])
        elif k == "ST4":
            v = ins["v"]
            out += b"\xc7\x05" + ins["a"].to_bytes(4, "little") + bytes([v, v + 1, v + 2, v + 3])
        elif k == "LD":
            out += b"\xa0" + ins["a"].to_bytes(4, "little")
        elif k == "PUM":
            out += b"\xff\x35" + ins["a"].to_bytes(4, "little")
        elif k == "INCM":
            out += b"\xfe\x05" + ins["a"].to_bytes(4, "little")
        elif k == "PATCHS":
            out += b"\xaa"          # STOSB: [EDI] := AL, EDI += 1 (EDI is preset on the target immediate)
        elif k == "PATCH":
            out += b"\xc6\x05" + imm_addr(prog, offs, ins["s"]).to_bytes(4, "little") + bytes([ins["v"]])
    return bytes(out), offs


def imm_addr(prog, offs, slot):
    k = prog[slot]["k"]
    return CODE + offs[slot] + {"RT": 3, "PU": 1}[k]


class Player(object):
    def __init__(self, backend, prog, item, maxline=50, maxexec=0, cache_max=None):
        from miasm.analysis.machine import Machine
        from miasm.core.locationdb import LocationDB
        from miasm.jitter.csts import PAGE_READ, PAGE_WRITE, EXCEPT_ACCESS_VIOL
        self.csts = (PAGE_READ, PAGE_WRITE, EXCEPT_ACCESS_VIOL)
        self.prog = prog
        self.item = item
        self.code, self.offs = encode(prog)
        self.addr2slot = {CODE + o: i for i, o in enumerate(self.offs)}
        self.loc_db = LocationDB()
        self.j = Machine("x86_32").jitter(self.loc_db, backend)
        j = self.j
        j.jit.set_options(jit_maxline=maxline, max_exec_per_call=maxexec)
        j.jit.mdis.lines_wd = maxline
        if cache_max is not None:
            # a tiny block cache: translated blocks are evicted while the program runs
            from miasm.core.utils import BoundedDict
            j.jit.offset_to_jitted_func = BoundedDict(cache_max, delete_cb=j.jit.offset_to_jitted_func._delete_cb)
        j.vm.add_memory_page(CODE, PAGE_READ | PAGE_WRITE, self.code + b"\xcc" * 8, "code")
        if item["stackok"]:
            j.vm.add_memory_page(STACK_BASE, PAGE_READ | PAGE_WRITE, STACK_FILL * STACK_SIZE, "stack")
        self.map_pages(item["pages"])
        self.hits = []
        self.bps = {}
        self.faulted = False

        def on_fault(jit):
            self.faulted = True
            return False
        j.add_exception_handler(EXCEPT_ACCESS_VIOL, on_fault)
        from miasm.jitter.csts import EXCEPT_BREAKPOINT_MEMORY
        self.membp = False

        def on_membp(jit):
            self.membp = True
            # the handler protocol of the repository's own example: clear the flag and the recorded accesses
            jit.vm.set_exception(jit.vm.get_exception() & ~EXCEPT_BREAKPOINT_MEMORY)
            jit.vm.reset_memory_access()
            return False
        j.add_exception_handler(EXCEPT_BREAKPOINT_MEMORY, on_membp)
        self.end = CODE + self.offs[-1]

        def at_end(jit):
            self.hits.append(len(self.prog))
            return False
        j.add_breakpoint(self.end, at_end)
        self.set_regs()

    def map_pages(self, pages):
        PAGE_READ, PAGE_WRITE, _ = self.csts
        for p in pages:
            content = bytes((p["base"] + i) % 251 for i in range(p["size"]))
            self.j.vm.add_memory_page(p["base"], {"rw": PAGE_READ | PAGE_WRITE, "ro": PAGE_READ, "wo": PAGE_WRITE}[p["perm"]], content, "data")

    def set_regs(self):
        j, it = self.j, self.item
        j.cpu.EAX = (it["acc"][0] << 16) | it["acc"][1]
        j.cpu.ECX = it["cnt"]
        j.cpu.ESP = STACK_TOP
        j.cpu.EBX = j.cpu.EDX = j.cpu.ESI = j.cpu.EDI = j.cpu.EBP = 0
        j.cpu.df = 0
        for x in self.prog:
            if x["k"] == "PATCHS":
                j.cpu.EDI = imm_addr(self.prog, self.offs, x["s"])
        j.cpu.zf = j.cpu.nf = j.cpu.pf = j.cpu.of = j.cpu.cf = j.cpu.af = 0

    def observe(self, crashed=""):
        j = self.j
        _, _, VIOL = self.csts
        pc = j.pc
        slot = self.addr2slot.get(pc, -1)
        stack = []
        esp = j.cpu.ESP
        if self.item["stackok"] or self.repaired:
            a = STACK_TOP - 4
            while a >= esp and a >= STACK_BASE:
                v = int.from_bytes(j.vm.get_mem(a, 4), "little")
                stack.append([v >> 16, v & 0xffff])
                a -= 4
        window = []
        for a in self.item["window"]:
            window.append(j.vm.get_mem(a, 1)[0] if j.vm.is_mapped(a, 1) else -1)
        exc = j.vm.get_exception()
        if crashed:
            stop = "crashed"
        elif self.faulted or (exc & VIOL):
            stop = "fault"
        elif self.membp:
            stop = "membp"
        elif pc == self.end:
            stop = "end"
        elif slot in self.bps and self.bps[slot] and self.hits and self.hits[-1] == slot:
            stop = "bp"
        else:
            stop = "other"
        eax = j.cpu.EAX
        # everything below the stack pointer still has the fill value (nothing of this machine writes there)
        below = "untouched"
        if (self.item["stackok"] or self.repaired) and STACK_BASE < esp <= STACK_TOP:
            if j.vm.get_mem(STACK_BASE, esp - STACK_BASE).strip(STACK_FILL):
                below = "modified"
        return {"below": below, "stop": stop, "pc": slot, "acchi": eax >> 16, "acclo": eax & 0xffff, "cnt": j.cpu.ECX & 0xffff, "stack": stack,
                "window": window, "hits": list(self.hits), "fault": bool(self.faulted or (exc & VIOL)), "crashed": crashed}

    repaired = False
    pending_patch = False

    def clear_faults(self):
        """clear the reported fault but keep a pending self-modification notice (a host write into translated code raises
        EXCEPT_CODE_AUTOMOD in the VM, which the jitter consumes at its next iteration)"""
        from miasm.jitter.csts import EXCEPT_CODE_AUTOMOD
        j = self.j
        j.vm.set_exception(j.vm.get_exception() & EXCEPT_CODE_AUTOMOD)
        j.cpu.set_exception(0)
        self.faulted = False

    def play(self, script):
        j = self.j
        PAGE_READ, PAGE_WRITE, VIOL = self.csts
        obs = []
        for c in script:
            k = c["c"]
            if k in ("run", "cont"):
                self.pending_patch = False
                self.faulted = False
                self.membp = False
                crashed = ""
                try:
                    if k == "run":
                        self.clear_faults()
                        j.init_run(CODE + self.offs[c["s"]])
                        j.continue_run()
                    elif obs and obs[-1]["stop"] in ("bp", "fault", "membp"):
                        j.continue_run()
                    # continuing a run that reached the end is a no-op (the reference does the same)
                except Exception as ex:
                    crashed = type(ex).__name__
                obs.append(self.observe(crashed))
                if crashed:
                    break
            elif k == "patch":
                self.pending_patch = True
                j.vm.set_mem(imm_addr(self.prog, self.offs, c["s"]), bytes([c["v"]]))
            elif k == "addbp":
                slot, stops = c["s"], c["stops"]

                def cb(jit, slot=slot, stops=stops):
                    self.hits.append(slot)
                    return not stops
                self.bps[slot] = stops
                self.cbs = getattr(self, "cbs", {})
                self.cbs[slot] = cb
                j.add_breakpoint(CODE + self.offs[slot], cb)
            elif k == "addmbp":
                j.vm.add_memory_breakpoint(c["a"], c["n"], (1 if c["r"] else 0) | (2 if c["w"] else 0))
            elif k == "rmbp":
                j.remove_breakpoints_by_address(CODE + self.offs[c["s"]])
                self.bps.pop(c["s"], None)
            elif k == "repair":
                self.repaired = True
                if not self.item["stackok"] and not j.vm.is_mapped(STACK_BASE, 1):
                    j.vm.add_memory_page(STACK_BASE, PAGE_READ | PAGE_WRITE, STACK_FILL * STACK_SIZE, "stack")
                have = {p["base"] for p in self.item["pages"]}
                for p in self.item["repaired"]:
                    if p["base"] in have:
                        j.vm.set_mem_access(p["base"], PAGE_READ | PAGE_WRITE)
                    else:
                        self.map_pages([p])
                self.clear_faults()
            elif k == "reset":
                self.set_regs()
                self.hits = []
                for p in self.item["pages"]:
                    if p["perm"] == "rw":
                        j.vm.set_mem(p["base"], bytes((p["base"] + i) % 251 for i in range(p["size"])))
                if self.item["stackok"]:
                    j.vm.set_mem(STACK_BASE, STACK_FILL * STACK_SIZE)
                # the host's own writes above are not accesses of the emulated program: armed watchpoints must not see them
                # (kept when a host patch of the code is still waiting to be noticed by the next run)
                if not self.pending_patch:
                    j.vm.reset_memory_access()
                self.clear_faults()
        return obs


def judge(ctx, items, label):
    from . import exprjson as X
    return X.judge(ctx, items, label=label, module="JitJudge", chunk=3000)
