------------------------------- MODULE ExprJudge -------------------------------
(* Batch judge: recorded facts about expressions are validated against Expr.tla.   *)
(* Items (JSON) are independent one-step traces; every item is an initial state    *)
(* and the invariant prints one verdict line per item.                             *)
(*   [t |-> "eq",  a, b, envs]     b (a rewrite of a) has a's width and value under *)
(*                                 every listed environment where a is defined      *)
(*   [t |-> "val", a, env, v]      the implementation computed v for a under env    *)
(*   [t |-> "vals", a, envs, vs]   the same for several environments at once        *)
(*   [t |-> "simp", a, b, envs, status, idem]   one recorded simplifier call:       *)
(*         Call(a) -> Return(b) -> Call(b) -> Return(b2); status is "ok" or names   *)
(*         the exception / exhausted budget; idem says b2 is the same object as b   *)
EXTENDS Expr, Json, IOUtils, FiniteSets
VARIABLES lo, hi
Items == JsonDeserialize(IOEnv.ITEMS_FILE)
(* the batch is split by bisection so that TLC's workers judge the items in parallel *)
Init == lo = 1 /\ hi = Len(Items)
Next == /\ lo < hi
        /\ LET mid == (lo + hi) \div 2 IN
           \/ lo' = lo /\ hi' = mid
           \/ lo' = mid + 1 /\ hi' = hi
cur == lo

RECURSIVE FirstBadEq(_, _, _, _)
FirstBadEq(a, b, envs, k) ==
  IF k > Len(envs) THEN 0
  ELSE LET va == Eval(a, envs[k]) vb == Eval(b, envs[k]) IN
       IF va.unk \/ vb.unk THEN -1
       ELSE IF va.ok /\ (~vb.ok \/ vb.v # va.v) THEN k
       ELSE FirstBadEq(a, b, envs, k + 1)

(* vs[k] is the value the implementation produced under envs[k]; undefined points impose nothing *)
RECURSIVE FirstBadVal(_, _, _, _)
FirstBadVal(a, envs, vs, k) ==
  IF k > Len(envs) THEN 0
  ELSE LET va == Eval(a, envs[k]) IN
       IF va.unk THEN -1
       ELSE IF va.ok /\ va.v # FromBytes(vs[k], a.w) THEN k
       ELSE FirstBadVal(a, envs, vs, k + 1)

(* ---- C09: possible values.  alts[j] = [cons |-> <<[e |-> cond, z |-> TRUE iff "cond = 0">>..>>, v |-> value expr] ---- *)
SatC(c, env) == LET r == Eval(c.e, env) IN r.ok /\ (IsZero(r.v) = c.z)
AllSat(alt, env) == \A j \in 1..Len(alt.cons) : SatC(alt.cons[j], env)
RECURSIVE FirstBadPV(_, _, _, _)
FirstBadPV(a, alts, envs, k) ==
  IF k > Len(envs) THEN 0
  ELSE LET va == Eval(a, envs[k]) IN
       IF va.unk THEN -1
       ELSE IF ~va.ok THEN FirstBadPV(a, alts, envs, k + 1)
       ELSE IF ~\E j \in 1..Len(alts) : AllSat(alts[j], envs[k]) THEN k                     \* no alternative is enabled
       ELSE IF \E j \in 1..Len(alts) : AllSat(alts[j], envs[k]) /\
                   LET vj == Eval(alts[j].v, envs[k]) IN ~vj.ok \/ vj.v # va.v THEN 1000 + k   \* an enabled alternative is wrong
       ELSE FirstBadPV(a, alts, envs, k + 1)

(* ---- C10: ranges.  ivs = sequence of <<lo bytes, hi bytes>> (closed, unsigned) ---- *)
InIvs(v, ivs, w) == \E j \in 1..Len(ivs) : Ule(FromBytes(ivs[j][1], w), v) /\ Ule(v, FromBytes(ivs[j][2], w))
RECURSIVE FirstOutside(_, _, _, _)
FirstOutside(a, ivs, envs, k) ==
  IF k > Len(envs) THEN 0
  ELSE LET va == Eval(a, envs[k]) IN
       IF va.unk THEN -1
       ELSE IF va.ok /\ ~InIvs(va.v, ivs, a.w) THEN k
       ELSE FirstOutside(a, ivs, envs, k + 1)
(* one modular-interval operation on small widths: every concrete result of members must be inside R *)
GammaN(ivs) == UNION {ivs[j][1]..ivs[j][2] : j \in 1..Len(ivs)}            \* intervals as small naturals here
MiopBad(it) ==
  LET w == it.w
      xs == GammaN(it.X) ys == IF it.arity = 2 THEN GammaN(it.Y) ELSE {0}
      res(x, y) == IF it.arity = 1 THEN Apply(it.op, <<FromNat(x, w)>>, w)
                   ELSE Apply(it.op, <<FromNat(x, w), FromNat(y, w)>>, w)
  IN {<<x, y>> \in xs \X ys : LET r == res(x, y) IN r.ok /\ ToNat(r.v) \notin GammaN(it.R)}

(* ---- C11: matching.  bind = sequence of [j |-> joker name, e |-> expression] ---- *)
Bound(bind, n) == {i \in 1..Len(bind) : bind[i].j = n}
RECURSIVE SubstJ(_, _)
SubstJ(p, bind) ==
  CASE p.k = "id" -> IF Bound(bind, p.n) # {} THEN bind[CHOOSE i \in Bound(bind, p.n) : TRUE].e ELSE p
    [] p.k = "int" -> p
    [] p.k = "mem" -> [p EXCEPT !.p = SubstJ(p.p, bind)]
    [] p.k = "slice" -> [p EXCEPT !.a = SubstJ(p.a, bind)]
    [] p.k = "cond" -> [p EXCEPT !.c = SubstJ(p.c, bind), !.t = SubstJ(p.t, bind), !.f = SubstJ(p.f, bind)]
    [] p.k \in {"op", "compose"} -> [p EXCEPT !.a = [i \in 1..Len(p.a) |-> SubstJ(p.a[i], bind)]]
Commut == {"+", "*", "&", "|", "^"}
RECURSIVE EqModComm(_, _)
EqModComm(x, y) ==
  /\ x.k = y.k
  /\ CASE x.k = "id" -> x.n = y.n /\ x.w = y.w
        [] x.k = "int" -> x.w = y.w /\ x.v = y.v
        [] x.k = "mem" -> x.w = y.w /\ EqModComm(x.p, y.p)
        [] x.k = "slice" -> x.lo = y.lo /\ x.hi = y.hi /\ EqModComm(x.a, y.a)
        [] x.k = "cond" -> EqModComm(x.c, y.c) /\ EqModComm(x.t, y.t) /\ EqModComm(x.f, y.f)
        [] x.k = "compose" -> Len(x.a) = Len(y.a) /\ \A i \in 1..Len(x.a) : EqModComm(x.a[i], y.a[i])
        [] x.k = "op" ->
             /\ x.op = y.op /\ Len(x.a) = Len(y.a)
             /\ IF x.op \in Commut
                THEN \E f \in Permutations(1..Len(x.a)) : \A i \in 1..Len(x.a) : EqModComm(x.a[i], y.a[f[i]])
                ELSE \A i \in 1..Len(x.a) : EqModComm(x.a[i], y.a[i])
OneBindingPerJoker(bind) == \A i, j \in 1..Len(bind) : bind[i].j = bind[j].j => i = j

Verdict(it) ==
  CASE it.t = "eq" ->
         IF it.a.w # it.b.w THEN "width"
         ELSE IF ~WellSized(it.b) THEN "illsized"
         ELSE LET r == FirstBadEq(it.a, it.b, it.envs, 1) IN
              IF r = 0 THEN "ok" ELSE IF r = -1 THEN "unk" ELSE "bad:" \o ToString(r)
    [] it.t = "simp" ->
         IF it.status # "ok" THEN "status:" \o it.status       \* there is no action for raising / not terminating
         ELSE IF it.a.w # it.b.w THEN "width"
         ELSE IF ~WellSized(it.b) THEN "illsized"
         ELSE LET r == FirstBadEq(it.a, it.b, it.envs, 1) IN
              IF r > 0 THEN "bad:" \o ToString(r)
              ELSE IF ~it.idem THEN "notfixed"        \* simplifying the result again returned something else
              ELSE IF r = -1 THEN "unk" ELSE "ok"
    [] it.t = "pv" ->
         LET r == FirstBadPV(it.a, it.alts, it.envs, 1) IN
         IF r = 0 THEN "ok" ELSE IF r = -1 THEN "unk" ELSE IF r > 1000 THEN "wrongalt:" \o ToString(r - 1000) ELSE "noalt:" \o ToString(r)
    [] it.t = "range" ->
         LET r == FirstOutside(it.a, it.ivs, it.envs, 1) IN
         IF r = 0 THEN "ok" ELSE IF r = -1 THEN "unk" ELSE "outside:" \o ToString(r)
    [] it.t = "miop" -> LET b == MiopBad(it) IN IF b = {} THEN "ok" ELSE "outside:" \o ToString(CHOOSE p \in b : TRUE)
    [] it.t = "match" ->
         IF ~OneBindingPerJoker(it.bind) THEN "twobindings"
         ELSE IF EqModComm(SubstJ(it.p, it.bind), it.a) THEN "ok" ELSE "notamatch"
    [] it.t = "vals" ->
         LET r == FirstBadVal(it.a, it.envs, it.vs, 1) IN
         IF r = 0 THEN "ok" ELSE IF r = -1 THEN "unk" ELSE "bad:" \o ToString(r)
    [] it.t = "val" ->
         LET va == Eval(it.a, it.env) IN
         IF va.unk THEN "unk" ELSE IF ~va.ok THEN "undef"
         ELSE IF va.v = FromBytes(it.v, it.a.w) THEN "ok" ELSE "bad:1"
Report == lo < hi \/ PrintT("V " \o ToString(cur) \o " " \o Verdict(Items[cur]))
=============================================================================
