------------------------------- MODULE ExprJudge -------------------------------
(* Batch judge: recorded facts about expressions are validated against Expr.tla.   *)
(* Items (JSON) are independent one-step traces; every item is an initial state    *)
(* and the invariant prints one verdict line per item.                             *)
(*   [t |-> "eq",  a, b, envs]     b (a rewrite of a) has a's width and value under *)
(*                                 every listed environment where a is defined      *)
(*   [t |-> "val", a, env, v]      the implementation computed v for a under env    *)
(*   [t |-> "vals", a, envs, vs]   the same for several environments at once        *)
(*   [t |-> "simp", a, b, envs, status, idem]   one recorded simplifier call:       *)
(*         Call(a) -> Return(b) -> Call(b) -> Return(b2); status is "ok" or names   *)
(*         the exception / exhausted budget; idem says b2 is the same object as b   *)
EXTENDS Expr, Json, IOUtils
VARIABLES lo, hi
Items == JsonDeserialize(IOEnv.ITEMS_FILE)
(* the batch is split by bisection so that TLC's workers judge the items in parallel *)
Init == lo = 1 /\ hi = Len(Items)
Next == /\ lo < hi
        /\ LET mid == (lo + hi) \div 2 IN
           \/ lo' = lo /\ hi' = mid
           \/ lo' = mid + 1 /\ hi' = hi
i == lo

RECURSIVE FirstBadEq(_, _, _, _)
FirstBadEq(a, b, envs, k) ==
  IF k > Len(envs) THEN 0
  ELSE LET va == Eval(a, envs[k]) vb == Eval(b, envs[k]) IN
       IF va.unk \/ vb.unk THEN -1
       ELSE IF va.ok /\ (~vb.ok \/ vb.v # va.v) THEN k
       ELSE FirstBadEq(a, b, envs, k + 1)

(* vs[k] is the value the implementation produced under envs[k]; undefined points impose nothing *)
RECURSIVE FirstBadVal(_, _, _, _)
FirstBadVal(a, envs, vs, k) ==
  IF k > Len(envs) THEN 0
  ELSE LET va == Eval(a, envs[k]) IN
       IF va.unk THEN -1
       ELSE IF va.ok /\ va.v # FromBytes(vs[k], a.w) THEN k
       ELSE FirstBadVal(a, envs, vs, k + 1)

Verdict(it) ==
  CASE it.t = "eq" ->
         IF it.a.w # it.b.w THEN "width"
         ELSE IF ~WellSized(it.b) THEN "illsized"
         ELSE LET r == FirstBadEq(it.a, it.b, it.envs, 1) IN
              IF r = 0 THEN "ok" ELSE IF r = -1 THEN "unk" ELSE "bad:" \o ToString(r)
    [] it.t = "simp" ->
         IF it.status # "ok" THEN "status:" \o it.status       \* there is no action for raising / not terminating
         ELSE IF it.a.w # it.b.w THEN "width"
         ELSE IF ~WellSized(it.b) THEN "illsized"
         ELSE LET r == FirstBadEq(it.a, it.b, it.envs, 1) IN
              IF r > 0 THEN "bad:" \o ToString(r)
              ELSE IF ~it.idem THEN "notfixed"        \* simplifying the result again returned something else
              ELSE IF r = -1 THEN "unk" ELSE "ok"
    [] it.t = "vals" ->
         LET r == FirstBadVal(it.a, it.envs, it.vs, 1) IN
         IF r = 0 THEN "ok" ELSE IF r = -1 THEN "unk" ELSE "bad:" \o ToString(r)
    [] it.t = "val" ->
         LET va == Eval(it.a, it.env) IN
         IF va.unk THEN "unk" ELSE IF ~va.ok THEN "undef"
         ELSE IF va.v = FromBytes(it.v, it.a.w) THEN "ok" ELSE "bad:1"
Report == lo < hi \/ PrintT("V " \o ToString(i) \o " " \o Verdict(Items[i]))
=============================================================================
