"""C14 lifted IR is well-formed for every decodable instruction (IRJudge.tla TypeCheck) on every architecture/mode."""
import contextlib
import io
import random
import warnings

from .. import core
from .. import exprjson as X
from .. import irjson as J

MACHINES = ["arml", "armb", "armtl", "armtb", "x86_16", "x86_32", "x86_64", "msp430", "mips32b", "mips32l",
            "aarch64l", "aarch64b", "ppc32b", "mepl", "mepb"]


def is_unsupported(instr, ex):
    """how the lifters report an instruction they have no semantics for"""
    if isinstance(ex, NotImplementedError):
        return True
    if isinstance(ex, ValueError) and str(ex).startswith("unknown mnemo"):
        return True
    if isinstance(ex, RuntimeError) and "need implementing" in str(ex):
        return True
    if isinstance(ex, KeyError) and ex.args and isinstance(ex.args[0], str):
        k = ex.args[0].lower()
        name = instr.name.lower()
        return k == name or name.startswith(k) or k.startswith(name.split(".")[0])
    return False


CONDS = ("EQ", "NE", "CS", "CC", "MI", "PL", "VS", "VC", "HI", "LS", "GE", "LT", "GT", "LE", "AL")


def mnemo(name, instr):
    """mnemonic used to identify a finding: ARM condition suffixes are not part of it"""
    n = instr.name.split(".")[0].upper()
    if name.startswith("arm") and len(n) > 3:
        for _ in range(2):           # e.g. LDCGTL -> LDC + GT + L, MRCCS -> MRC + CS
            if n[-2:] in CONDS and len(n) > 3:
                n = n[:-2]
            elif n[-1] in "LS" and len(n) > 4 and n[-3:-1] in CONDS:
                n = n[:-1]
    return n[:12]


CURATED = {"x86": ["x86_16", "x86_32", "x86_64"], "arm": ["arml", "armb", "armtl", "armtb"], "aarch64": ["aarch64l", "aarch64b"],
           "mips32": ["mips32l", "mips32b"], "msp430": ["msp430"], "ppc32": ["ppc32b"], "mep": ["mepb", "mepl"]}


def curated_vectors():
    """encodings listed in the repository's own per-architecture vector files (read as text: nothing is executed)"""
    import glob
    import os
    import re
    out = {}
    for d, machines in CURATED.items():
        hexes = []
        for f in sorted(glob.glob(os.path.join(core.REPO, "test", "arch", d, "**", "*.py"), recursive=True)):
            try:
                txt = open(f, errors="replace").read()
            except OSError:
                continue
            for h in re.findall(r"[\"']([0-9a-fA-F]{2,40})[\"']", txt):
                if len(h) % 2 == 0:
                    hexes.append(h.lower())
        hexes = sorted(set(hexes))
        for mname in machines:
            out[mname] = hexes
    return out


def fam_of(name):
    return name.rstrip("lb") if name not in ("x86_16", "x86_32", "x86_64") else name


def run(ctx):
    from miasm.analysis.machine import Machine
    from miasm.core.locationdb import LocationDB
    q = ctx.quick
    per = 500 if q else 5000
    items, meta = [], []
    stats = {}
    crashes = {}
    warnings.simplefilter("ignore")
    curated = curated_vectors()
    for name in MACHINES:
        m = Machine(name)
        # the byte stream does not depend on VERIF_SEED: the quick stream is a prefix of the thorough one, so a finding
        # recorded from the thorough run is never met unlisted by another run
        rng = random.Random("c14-" + name)
        loc_db = LocationDB()
        lifter = m.lifter_model_call(loc_db)
        regs = sorted(set(r.name for r in m.mn.regs.all_regs_ids))
        st = {"decoded": 0, "undecodable": 0, "unsupported": 0, "lifted": 0, "blocks": 0}
        cur = curated.get(name, [])
        if q:
            cur = cur[::7]
        for n_ in range(per + len(cur)):
            bs = bytes(rng.getrandbits(8) for _ in range(16))
            if n_ >= per:
                bs = bytes.fromhex(cur[n_ - per]) + bs
                st["curated"] = st.get("curated", 0) + 1
            addr = rng.choice([0, 0x1000, 0x400000, 0x7ffffff0]) & ~3 & ((1 << lifter.IRDst.size) - 1)
            try:
                instr = m.mn.dis(bs, lifter.attrib)
            except Exception:
                st["undecodable"] += 1
                continue
            st["decoded"] += 1
            if name.startswith("armt") and instr.name == "IT":
                continue            # an IT prefix is lifted together with the instructions it predicates, not alone
            instr.offset = addr
            ircfg = lifter.new_ircfg()
            try:
                with contextlib.redirect_stdout(io.StringIO()):
                    lifter.add_instr_to_ircfg(instr, ircfg)
            except Exception as ex:
                if is_unsupported(instr, ex):
                    st["unsupported"] += 1
                    continue
                key = "%s:%s:%s" % (fam_of(name), mnemo(name, instr), type(ex).__name__)
                crashes.setdefault(key, []).append((name, str(instr), bs[:instr.l].hex(), type(ex).__name__ + ":" + str(ex)[:120]))
                continue
            st["lifted"] += 1
            try:
                blocks = [J.block_json(b) for b in ircfg.blocks.values()]
            except ValueError as ex:
                key = "%s:%s:%s" % (fam_of(name), mnemo(name, instr), "NotAnIRExpression")
                crashes.setdefault(key, []).append((name, str(instr), bs[:instr.l].hex(), "IR contains a node that is no IR value: " + str(ex)[:120]))
                continue
            st["blocks"] += len(blocks)
            edges = [{"s": J.loc_name(s), "d": J.loc_name(d)} for s, d in ircfg.edges()]
            offs = []
            seen_ints = set()
            for b in ircfg.blocks.values():
                def visit(x, seen_ints=seen_ints):
                    if x.is_int():
                        seen_ints.add((int(x), x.size))
                    return x
                b.dst.visit(visit)
            for v, w in sorted(seen_ints):
                lk = loc_db.get_offset_location(v)
                if lk is not None:
                    offs.append({"v": X.ibytes(v, w), "loc": J.loc_name(lk)})
            items.append({"t": "lifted", "blocks": blocks, "regs": regs, "irdst": lifter.IRDst.name, "offs": offs + [{"v": [], "loc": "-"}],
                          "edges": edges + [{"s": "-", "d": "-"}]})
            meta.append((name, str(instr), bs[:instr.l].hex(), "%s:%s" % (fam_of(name), mnemo(name, instr))))
        stats[name] = st
    for key, lst in sorted(crashes.items()):
        fid = key
        if fid in ctx.findings:
            ctx.known(fid, "%s: lifting raised %s (%d decodings, e.g. %s = %s)" % (lst[0][0], lst[0][3], len(lst), lst[0][1], lst[0][2]))
        else:
            ctx.violation("lifter-raised", {"finding_id": fid, "arch": lst[0][0], "instr": lst[0][1], "bytes": lst[0][2], "raised": lst[0][3],
                                            "occurrences": len(lst)})
    verdicts = X.judge(ctx, items, label="c14", module="IRJudge", chunk=2500)
    counts = {}
    for v, mt in zip(verdicts, meta):
        key = v.split(":")[0]
        counts[key] = counts.get(key, 0) + 1
        if v != "ok":
            what = v.split(":")[2] if v.count(":") >= 2 else v
            fid = "%s:%s" % (mt[3], what)
            if fid in ctx.findings:
                ctx.known(fid, "%s: lifted IR of %s (%s) is ill-formed: %s" % (mt[0], mt[1], mt[2], v))
            else:
                ctx.violation("lifted-ir-ill-formed", {"finding_id": fid, "arch": mt[0], "instr": mt[1], "bytes": mt[2], "verdict": v})
    ctx.traces += len(items)
    ctx.evaluations += sum(s["decoded"] for s in stats.values())
    ctx.distinct = set(meta)
    for k in (0, len(meta) // 2, len(meta) - 1):
        ctx.sample({"arch": meta[k][0], "instr": meta[k][1], "bytes": meta[k][2], "tlc_verdict": verdicts[k]})
    ctx.notes["per_architecture"] = stats
    ctx.notes["verdicts"] = counts
    ctx.assumptions += ["byte strings are drawn from a fixed per-architecture stream (independent of VERIF_SEED; quick is a prefix of thorough)",
                        "NotImplementedError, 'unknown mnemo' and a KeyError on the mnemonic are the lifters' ways to report 'unsupported'",
                        "sh4 has no lifter"]
    return ("random byte strings decoded in every architecture/mode (15 machines) and lifted one instruction at a time at several "
            "addresses; TLC checks each block: destinations are registers or memory, equal widths, IRDst set exactly once, every "
            "identifier is a declared register, and the IR graph has an edge for every location the destination can take")
