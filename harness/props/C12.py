"""C12 symbolic execution is a sound abstraction of concrete execution (IRMachine.tla is the concrete semantics)."""
from .. import core
from .. import exprjson as X
from .. import irjson as J
from .. import exprgen

DATA = ["EAX", "EBX", "ECX", "EDX"]
PTRS = ["ESI", "EDI", "EBP", "ESP"]
FLAGS = ["zf", "cf", "nf"]
REGION = {"ESI": 0x10000000, "EDI": 0x23000000, "EBP": 0x37000000, "ESP": 0x4B000000}


class Recorder(object):
    """wraps the engine's memory hooks: every evaluated pointer of a read or a write is logged"""

    def __init__(self, eng):
        self.acc = []
        rd, wr = eng.mem_read, eng.mem_write

        def mem_read(expr):
            self.acc.append((expr.ptr, expr.size))
            return rd(expr)

        def mem_write(dst, src):
            self.acc.append((dst.ptr, dst.size))
            return wr(dst, src)
        eng.mem_read, eng.mem_write = mem_read, mem_write


class ProgGen(object):
    def __init__(self, rng, lifter, loc_db):
        import miasm.expression.expression as m
        self.m, self.rng, self.lifter, self.loc_db = m, rng, lifter, loc_db
        self.reg = {n: m.ExprId(n, 32) for n in DATA + PTRS}
        self.flag = {n: m.ExprId(n, 1) for n in FLAGS}

    def ptr(self):
        m, r = self.m, self.rng
        if r.random() < 0.2:
            return m.ExprInt(r.choice([0x100, 0x104, 0x102, 0x2000, 0xfffc]), 32)
        base = self.reg[r.choice(PTRS)]
        off = r.choice([0, 0, 4, 8, 2, 1, 0xfffffffc, 0xfffffff8, 0x10, 6])
        return base if off == 0 else base + m.ExprInt(off, 32)

    def mem(self, w=None):
        return self.m.ExprMem(self.ptr(), w or self.rng.choice([8, 16, 32, 32]))

    def val(self, w, d):
        m, r = self.m, self.rng
        if d <= 0 or r.random() < 0.25:
            c = r.random()
            if w == 32 and c < 0.55:
                return self.reg[r.choice(DATA + PTRS[:2])]
            if w == 1 and c < 0.6:
                return self.flag[r.choice(FLAGS)]
            if c < 0.75 and w in (8, 16, 32):
                return self.mem(w)
            return m.ExprInt(r.choice([0, 1, (1 << w) - 1, 1 << (w - 1), r.getrandbits(w)]), w)
        c = r.random()
        if c < 0.35:
            return m.ExprOp(r.choice(["+", "^", "&", "|", "*"]), self.val(w, d - 1), self.val(w, d - 1))
        if c < 0.45:
            return m.ExprOp("-", self.val(w, d - 1))
        if c < 0.55:
            return m.ExprOp(r.choice(["<<", ">>", "a>>", "<<<"]), self.val(w, d - 1), m.ExprInt(r.randrange(0, w + 2), w))
        if c < 0.65:
            return m.ExprCond(self.val(r.choice([1, w]), d - 1), self.val(w, d - 1), self.val(w, d - 1))
        if c < 0.75 and w < 32:
            lo = r.randrange(0, 32 - w + 1)
            return self.val(32, d - 1)[lo:lo + w]
        if c < 0.85 and w == 32:
            return m.ExprCompose(self.val(16, d - 1), self.val(8, d - 1), self.val(8, d - 1))
        if c < 0.9 and w == 1:
            return m.ExprOp(r.choice(["==", "<u", "<s", "FLAG_EQ_CMP", "FLAG_SUB_CF"]), self.val(32, d - 1), self.val(32, d - 1))
        if w > 8:
            return self.val(8, d - 1).zeroExtend(w) if r.random() < 0.5 else self.val(8, d - 1).signExtend(w)
        return self.val(w, d - 1)

    def assignblk(self):
        from miasm.ir.ir import AssignBlock
        m, r = self.m, self.rng
        d = {}
        k = r.random()
        if k < 0.12:       # swap: parallel semantics
            a, b = r.sample(DATA, 2)
            d[self.reg[a]], d[self.reg[b]] = self.reg[b], self.reg[a]
        elif k < 0.2:      # a register used and redefined in the same block
            a, b = r.sample(DATA, 2)
            d[self.reg[a]] = self.reg[b] + m.ExprInt(1, 32)
            d[self.reg[b]] = self.reg[a] ^ self.reg[b]
        for _ in range(r.randrange(1, 4)):
            c = r.random()
            if c < 0.45:
                dst = self.reg[r.choice(DATA)]
            elif c < 0.55:
                dst = self.flag[r.choice(FLAGS)]
            elif c < 0.65:
                p = self.reg[r.choice(PTRS)]
                if p in d:
                    continue
                d[p] = p + m.ExprInt(r.choice([4, 0xfffffffc, 8, 1]), 32)
                continue
            else:
                dst = self.mem()
                # one memory destination per base in an assign block (overlap inside one block is unordered)
                if any(x.is_mem() for x in d):
                    continue
            if dst in d:
                continue
            d[dst] = self.val(dst.size, r.choice([0, 1, 2, 2, 3]))
        return d

    def copy_program(self):
        """memcpy-like: adjacent copies between two bases, then reads that straddle the copied cells"""
        from miasm.ir.ir import IRBlock, AssignBlock
        m, r = self.m, self.rng
        p, q = r.sample(PTRS, 2)
        P, Q = self.reg[p], self.reg[q]
        sz = r.choice([1, 2, 4])
        n = r.choice([2, 3])
        base_p, base_q = r.choice([0, 4, 0xfffffffc]), r.choice([0, 8, 0xfffffff8, 1])
        abs_ = []
        order = list(range(n))
        if r.random() < 0.3:
            order.reverse()
        for k in order:
            dst = m.ExprMem(P + m.ExprInt((base_p + k * sz) & 0xffffffff, 32), 8 * sz)
            src = m.ExprMem(Q + m.ExprInt((base_q + k * sz) & 0xffffffff, 32), 8 * sz)
            abs_.append({dst: src})
        reads = {}
        for reg in r.sample(DATA, 3):
            w = r.choice([8, 16, 32])
            off = (base_p + r.randrange(0, n * sz)) & 0xffffffff
            v = m.ExprMem(P + m.ExprInt(off, 32), w)
            reads[self.reg[reg]] = v.zeroExtend(32) if w < 32 else v
        abs_.append(reads)
        locs = [self.loc_db.add_location() for _ in range(3)]
        last = dict(abs_[-1])
        last[self.lifter.IRDst] = m.ExprLoc(locs[1], 32)
        abs_[-1] = last
        ircfg = self.lifter.new_ircfg()
        b = IRBlock(self.loc_db, locs[0], [AssignBlock(a) for a in abs_])
        ircfg.add_irblock(b)
        return ircfg, [b], locs

    def program(self, nblocks):
        from miasm.ir.ir import IRBlock, AssignBlock
        m, r = self.m, self.rng
        locs = [self.loc_db.add_location() for _ in range(nblocks + 2)]
        ircfg = self.lifter.new_ircfg()
        blocks = []
        for i in range(nblocks):
            abs_ = [self.assignblk() for _ in range(r.randrange(1, 4))]
            nxt = m.ExprLoc(locs[i + 1], 32)
            if i == nblocks - 1:
                k = r.random()
                if k < 0.4:
                    nxt = m.ExprCond(self.val(r.choice([1, 32]), 1), m.ExprLoc(locs[i + 1], 32), m.ExprLoc(locs[i + 2], 32))
                elif k < 0.6:
                    nxt = self.val(32, 1)
                elif k < 0.7:
                    nxt = m.ExprInt(r.getrandbits(32), 32)
            last = dict(abs_[-1])
            last[self.lifter.IRDst] = nxt
            abs_[-1] = last
            b = IRBlock(self.loc_db, locs[i], [AssignBlock(a) for a in abs_])
            ircfg.add_irblock(b)
            blocks.append(b)
        return ircfg, blocks, locs


def concrete_ptr(ptr, values):
    """input filter: concrete value of a pointer expression (over the initial state) under the valuation"""
    import miasm.expression.expression as m
    from miasm.expression.simplifications import expr_simp
    rep = {}

    def visit(x):
        if x.is_id() and x.name in values:
            rep[x] = m.ExprInt(values[x.name], x.size)
        return x
    ptr.visit(visit)
    r = expr_simp(ptr.replace_expr(rep))
    return int(r) if r.is_int() else None


def base_of(ptr):
    if ptr.is_int():
        return "INT"
    if ptr.is_op("+") and ptr.args[-1].is_int():
        rest = ptr.args[:-1]
        return str(rest[0]) if len(rest) == 1 else str(ptr.__class__("+", *rest))
    return str(ptr)


def aliasing(acc, values):
    """True when two accesses built on different symbolic bases overlap concretely (the property's proviso fails)"""
    regs = []
    for ptr, size in acc:
        a = concrete_ptr(ptr, values)
        if a is None:
            return True          # pointer depends on memory content: cannot establish the proviso
        regs.append((base_of(ptr), a, size // 8))
    for i in range(len(regs)):
        for j in range(i + 1, len(regs)):
            if regs[i][0] != regs[j][0]:
                a, n, b, k = regs[i][1], regs[i][2], regs[j][1], regs[j][2]
                if any(((a + x) & 0xffffffff) == ((b + y) & 0xffffffff) for x in range(n) for y in range(k)):
                    return True
    return False


def make_values(rng, sizes):
    vals = {}
    for nm, w in sizes.items():
        if nm in REGION:
            vals[nm] = REGION[nm] + rng.choice([0, 0x100, 0x7f0, 0x1004, 0xfff8])
        elif nm.startswith("loc_"):
            continue
        elif w is not None:
            vals[nm] = rng.choice(X.boundary_values(w)) if rng.random() < 0.4 else rng.getrandbits(w)
    return vals


def run(ctx):
    from miasm.analysis.machine import Machine
    from miasm.core.locationdb import LocationDB
    from miasm.ir.symbexec import SymbolicExecutionEngine
    import miasm.expression.expression as m
    q = ctx.quick
    rng = ctx.rng
    machine = Machine("x86_32")
    items, meta = [], []
    dropped_alias = 0
    for n in range(500 if q else 6000):
        loc_db = LocationDB()
        lifter = machine.lifter_model_call(loc_db)
        g = ProgGen(rng, lifter, loc_db)
        if rng.random() < 0.2:
            ircfg, blocks, locs = g.copy_program()
        else:
            ircfg, blocks, locs = g.program(rng.choice([1, 1, 2, 3, 4]))
        eng = SymbolicExecutionEngine(lifter)
        rec = Recorder(eng)
        executed = []
        orig = eng.eval_updt_irblock

        def hook(irb, step=False, orig=orig, executed=executed):
            executed.append(irb)
            return orig(irb, step=step)
        eng.eval_updt_irblock = hook
        try:
            dst = eng.run_at(ircfg, locs[0])
        except Exception as ex:
            ctx.violation("symbolic-execution-raised", {"program": [str(b) for b in blocks], "raised": type(ex).__name__ + ":" + str(ex)[:200]})
            continue
        sizes = J.ids_in_blocks(blocks)
        for nm in DATA + PTRS:
            sizes[nm] = 32
        for nm in FLAGS:
            sizes[nm] = 1
        sizes["IRDst"] = 32
        for k in sizes:
            if sizes[k] is None:
                sizes[k] = 32
        sym_ids, sym_mem = [], []
        try:
            for d, v in eng.symbols.ids():
                sym_ids.append({"n": d.name, "w": d.size, "v": X.to_json(v)})
                sizes.update(X.ids_of(v))
            for d, v in eng.symbols.memory():
                sym_mem.append({"p": X.to_json(d.ptr), "w": d.size, "v": X.to_json(v)})
                rec.acc.append((d.ptr, d.size))
            jdst = X.to_json(dst)
        except ValueError:
            continue
        envs = []
        for _ in range(10):
            vals = make_values(rng, sizes)
            if aliasing(rec.acc, vals):
                dropped_alias += 1
                continue
            envs.append(J.ir_env(sizes, vals, rng.randrange(256)))
            if len(envs) >= 5:
                break
        if not envs:
            continue
        regs = [{"n": nm, "w": w} for nm, w in sizes.items() if not nm.startswith("loc_") and nm != "IRDst"]
        items.append({"t": "symb", "path": [J.block_json(b) for b in executed], "ids": sym_ids + [{"n": "__none", "w": 8, "v": {"k": "int", "w": 8, "v": [0]}}],
                      "mem": sym_mem, "dst": jdst, "w": 32, "regs": regs, "envs": envs})
        meta.append((blocks, executed, dst, envs))
    verdicts = X.judge(ctx, items, label="c12", module="IRJudge", chunk=1500)
    counts = {}
    for v, mt in zip(verdicts, meta):
        key = v.split(":")[0]
        counts[key] = counts.get(key, 0) + 1
        if key == "bad":
            k = int(v.split(":")[1]) - 1
            ctx.violation("symbolic-execution-unsound", {"program": [str(b) for b in mt[0]][:6], "executed_blocks": len(mt[1]),
                                                         "symbolic_destination": str(mt[2]), "env": mt[3][k]["ids"], "verdict": v})
    ctx.traces += len(items)
    ctx.evaluations += sum(len(i["envs"]) for i in items)
    ctx.distinct = set(str([str(b) for b in mt[0]]) for mt in meta)
    for k in (0, len(meta) // 2, len(meta) - 1):
        ctx.sample({"first_block": str(meta[k][0][0])[:300], "blocks_executed": len(meta[k][1]), "symbolic_destination": str(meta[k][2])[:100],
                    "tlc_verdict": verdicts[k]})
    ctx.notes["verdicts"] = counts
    ctx.notes["valuations_dropped_for_aliasing"] = dropped_alias
    ctx.assumptions += ["IRMachine.tla (parallel assign blocks, little-endian byte memory) is the concrete semantics",
                        "valuations in which accesses built on different symbolic bases overlap are not used (the property's proviso)",
                        "inside one assign block at most one memory destination is generated (overlap inside a block is unordered)"]
    return ("random IR programs over x86-32 registers (1-4 blocks of parallel assign blocks: swaps, use-and-redefine, memory reads and "
            "writes on pointer registers +- constants and absolute addresses, overlapping accesses on one base in different blocks, "
            "constant / conditional / computed destinations) run by SymbolicExecutionEngine.run_at; TLC executes the same block path "
            "concretely on IRMachine.tla and checks every register, every symbolic memory entry, every concrete write and the destination")
