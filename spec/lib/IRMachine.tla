------------------------------ MODULE IRMachine ------------------------------
(* Concrete semantics of miasm IR (properties C12, C36, C37, C39, C40): a machine  *)
(* state is an environment of Expr.tla                                             *)
(*     [ids |-> name -> little-endian byte list, seed, endian, wr |-> write log]   *)
(* A program is a sequence of IR blocks                                            *)
(*     [loc |-> name, abs |-> << assign block, ... >>]                             *)
(* and an assign block a sequence of [d |-> destination, s |-> source].            *)
(* ALL sources and ALL destination pointers of an assign block are evaluated in    *)
(* the state before the block; then every assignment is applied (parallel          *)
(* semantics).  The next block is the one whose location value equals IRDst.       *)
EXTENDS Expr

RECURSIVE ByteAt(_, _, _)
ByteAt(v, i, j) == IF j = 8 THEN 0
                   ELSE (IF 8 * (i - 1) + j + 1 <= Len(v) THEN v[8 * (i - 1) + j + 1] ELSE 0) * P2[j + 1] + ByteAt(v, i, j + 1)
ToBytes(v) == [i \in 1..((Len(v) + 7) \div 8) |-> ByteAt(v, i, 0)]

(* write the value v (a multiple of 8 bits) at pointer A, in the environment's byte order; newest entries first *)
RECURSIVE WrBytes(_, _, _, _, _)
WrBytes(A, v, k, n, big) ==
  IF k > n THEN <<>>
  ELSE LET idx == IF big THEN n - k + 1 ELSE k
           byte == SubSeq(v, 8 * (idx - 1) + 1, 8 * idx)
       IN <<<<ZeroExt(A, 64), byte>>>> \o WrBytes(Add(A, One(Len(A))), v, k + 1, n, big)

Fail(u) == [ok |-> FALSE, unk |-> u]
(* one assign block *)
RECURSIVE ApplyAll(_, _, _, _, _)
ApplyAll(ab, vals, ptrs, i, env) ==
  IF i > Len(ab) THEN env
  ELSE LET d == ab[i].d IN
       IF d.k = "mem"
       THEN ApplyAll(ab, vals, ptrs, i + 1,
                     [env EXCEPT !.wr = WrBytes(ptrs[i].v, vals[i].v, 1, Len(vals[i].v) \div 8, env.endian = "big") \o env.wr])
       ELSE ApplyAll(ab, vals, ptrs, i + 1, [env EXCEPT !.ids = [n \in DOMAIN env.ids \cup {d.n} |->
                                                                   IF n = d.n THEN ToBytes(vals[i].v) ELSE env.ids[n]]])
StepAB(ab, env) ==
  LET vals == [i \in 1..Len(ab) |-> Eval(ab[i].s, env)]
      ptrs == [i \in 1..Len(ab) |-> IF ab[i].d.k = "mem" THEN Eval(ab[i].d.p, env) ELSE Val(<<>>)]
  IN IF \E i \in 1..Len(ab) : vals[i].unk \/ ptrs[i].unk THEN Fail(TRUE)
     ELSE IF \E i \in 1..Len(ab) : ~vals[i].ok \/ ~ptrs[i].ok THEN Fail(FALSE)
     ELSE [ok |-> TRUE, unk |-> FALSE, env |-> ApplyAll(ab, vals, ptrs, 1, env)]

RECURSIVE StepBlock(_, _, _)
StepBlock(abs, i, env) ==
  IF i > Len(abs) THEN [ok |-> TRUE, unk |-> FALSE, env |-> env]
  ELSE LET r == StepAB(abs[i], env) IN IF r.ok THEN StepBlock(abs, i + 1, r.env) ELSE r

(* well-formedness of a block: what the lifter must guarantee (C14) *)
DstOK(d) == d.k \in {"id", "mem"}
ABTypeOK(ab) == \A i \in 1..Len(ab) : DstOK(ab[i].d) /\ ab[i].d.w = ab[i].s.w /\ WellSized(ab[i].s)
                                    /\ (ab[i].d.k = "mem" => WellSized(ab[i].d.p))

(* run a given sequence of blocks (a path): after each block the value of IRDst must be the   *)
(* location of the next block of the path.  Returns the final environment and where it ended. *)
DstVal(env, w) == FromBytes(env.ids["IRDst"], w)
LocVal(env, name, w) == FromBytes(env.ids[name], w)
RECURSIVE RunPath(_, _, _, _)
RunPath(path, i, env, w) ==
  IF i > Len(path) THEN [ok |-> TRUE, unk |-> FALSE, env |-> env, at |-> i]
  ELSE IF i > 1 /\ DstVal(env, w) # LocVal(env, path[i].loc, w) THEN [ok |-> TRUE, unk |-> FALSE, env |-> env, at |-> i]   \* left the path
  ELSE LET r == StepBlock(path[i].abs, 1, env) IN
       IF r.ok THEN RunPath(path, i + 1, r.env, w) ELSE [ok |-> FALSE, unk |-> r.unk, env |-> env, at |-> i]

(* run a graph: prog is a sequence of blocks; execution starts at the block named start and follows IRDst *)
(* until it designates no block of the program (the exit) or the step budget is spent.                    *)
BlockAt(prog, env, v, w) == {i \in 1..Len(prog) : LocVal(env, prog[i].loc, w) = v}
RECURSIVE RunGraph(_, _, _, _, _)
RunGraph(prog, cur, env, w, budget) ==
  IF budget = 0 THEN [ok |-> TRUE, unk |-> FALSE, env |-> env, exit |-> "budget", trace |-> <<>>]
  ELSE LET r == StepBlock(prog[cur].abs, 1, env) IN
       IF ~r.ok THEN [ok |-> FALSE, unk |-> r.unk, env |-> env, exit |-> "undef", trace |-> <<>>]
       ELSE LET nxt == BlockAt(prog, r.env, DstVal(r.env, w), w) IN
            IF nxt = {} THEN [ok |-> TRUE, unk |-> FALSE, env |-> r.env, exit |-> "exit", trace |-> <<cur>>]
            ELSE LET rest == RunGraph(prog, CHOOSE j \in nxt : TRUE, r.env, w, budget - 1) IN
                 [rest EXCEPT !.trace = <<cur>> \o rest.trace]
=============================================================================
