"""miasm Expr <-> JSON trees understood by spec/lib/Expr.tla; environments; the TLC judge."""
import json
import os

from . import core


def ibytes(v, w):
    n = (w + 7) // 8
    return list((v & ((1 << w) - 1)).to_bytes(n, "little"))


def to_json(e):
    """miasm expression -> JSON tree (raises ValueError on nodes the spec has no form for)."""
    if e.is_int():
        return {"k": "int", "w": e.size, "v": ibytes(int(e), e.size)}
    if e.is_id():
        return {"k": "id", "w": e.size, "n": e.name}
    if e.is_loc():
        return {"k": "id", "w": e.size, "n": "loc_%d" % e.loc_key.key}
    if e.is_mem():
        return {"k": "mem", "w": e.size, "p": to_json(e.ptr)}
    if e.is_slice():
        return {"k": "slice", "w": e.size, "a": to_json(e.arg), "lo": e.start, "hi": e.stop}
    if e.is_compose():
        return {"k": "compose", "w": e.size, "a": [to_json(a) for a in e.args]}
    if e.is_cond():
        return {"k": "cond", "w": e.size, "c": to_json(e.cond), "t": to_json(e.src1), "f": to_json(e.src2)}
    if e.is_op():
        op = e.op
        if op.startswith("zeroExt_"):
            op = "zeroExt"
        elif op.startswith("signExt_"):
            op = "signExt"
        return {"k": "op", "w": e.size, "op": op, "a": [to_json(a) for a in e.args]}
    raise ValueError("no JSON form for %r" % (e,))


def ids_of(e):
    from miasm.expression.expression import ExprId, ExprLoc
    out = {}

    def visit(x):
        if x.is_id():
            out[x.name] = x.size
        elif x.is_loc():
            out["loc_%d" % x.loc_key.key] = x.size
        return x
    e.visit(visit)
    return out


def mem_byte(addr, seed):
    """the environment's memory: a fixed function of the address (mirrors Expr.tla MemByte)"""
    return ((addr & 0xff) + 31 * ((addr >> 8) & 0xff) + seed) % 256


def mem_read(addr, size, seed, endian="little", addrsize=64):
    bs = bytes(mem_byte((addr + i) % (1 << addrsize), seed) for i in range(size // 8))
    return int.from_bytes(bs, endian)


def boundary_values(w):
    m = (1 << w) - 1
    vals = {0, 1, m, 1 << (w - 1), (1 << (w - 1)) - 1 if w > 1 else 0, 2 & m, (m - 1) & m, w & m, (w - 1) & m,
            (w + 1) & m, 0x80 & m, 0xff & m, 0x7f & m}
    return sorted(vals)


def make_envs(idsizes, rng, n, endian="little"):
    """n environments: boundary combinations first, then random"""
    envs = []
    names = sorted(idsizes)
    for k in range(n):
        ids = {}
        for nm in names:
            w = idsizes[nm]
            if k < 4 or rng.random() < 0.35:
                ids[nm] = rng.choice(boundary_values(w))
            else:
                ids[nm] = rng.getrandbits(w)
        envs.append({"ids": ids, "seed": rng.randrange(256), "endian": endian})
    return envs


def all_envs(idsizes, endian="little", seeds=(0,)):
    """every valuation (only when the identifiers total few bits)"""
    names = sorted(idsizes)
    total = sum(idsizes[n] for n in names)
    envs = []
    for seed in seeds:
        for x in range(1 << total):
            ids = {}
            for nm in names:
                ids[nm] = x & ((1 << idsizes[nm]) - 1)
                x >>= idsizes[nm]
            envs.append({"ids": ids, "seed": seed, "endian": endian})
    return envs


def env_json(env, idsizes):
    # TLC reads a JSON object as a record; an empty object is avoided with a dummy identifier
    ids = {nm: ibytes(v, idsizes[nm]) for nm, v in env["ids"].items()}
    ids["__none"] = [0]
    return {"ids": ids, "seed": env["seed"], "endian": env["endian"], "wr": []}


JUDGE_TMPL = """---- MODULE %(name)s ----
EXTENDS %(mod)s
====
"""


def judge(ctx, items, label="judge", module="ExprJudge", timeout=3000, chunk=4000):
    """items: list of JSON items; returns list of verdict strings (same order)."""
    verdicts = [None] * len(items)
    for start in range(0, len(items), chunk):
        part = items[start:start + chunk]
        name = "%s_%s_%d" % (module, label, start)
        d = ctx.sub("tlc_" + name)
        f = os.path.join(d, "items.json")
        with open(f, "w") as fh:
            json.dump(part, fh)
        got = {}

        def on_print(s):
            if s.startswith("V "):
                _, i, v = s.split(" ", 2)
                got[int(i)] = v
        cfg = "INIT Init\nNEXT Next\nINVARIANT Report\nCHECK_DEADLOCK FALSE\n"
        res = core.run_tlc(ctx, name, JUDGE_TMPL % dict(name=name, mod=module), cfg, workers=core.NCPU,
                           on_print=on_print, env_extra={"ITEMS_FILE": f}, timeout=timeout)
        ctx.add_tlc(res)
        if len(got) != len(part):
            raise core.MachineryError("judge %s: %d verdicts for %d items\n%s" % (
                name, len(got), len(part), "\n".join(res.tail[-30:])))
        for i, v in got.items():
            verdicts[start + i - 1] = v
    return verdicts


def bv_selftest(ctx, maxw=4):
    """BV.tla against integer arithmetic, exhaustively for widths 1..maxw (a failure is a machinery error)."""
    text = "---- MODULE BVT ----\nEXTENDS BVTest\n====\n"
    for w in range(1, maxw + 1):
        cfg = "INIT Init\nNEXT Next\nINVARIANT OK\nCHECK_DEADLOCK FALSE\nCONSTANT W = %d\n" % w
        res = core.run_tlc(ctx, "BVT", text, cfg, workers=core.NCPU, timeout=900)
        ctx.add_tlc(res)
        if not res.ok:
            raise core.MachineryError("BV.tla self-test failed at width %d: %s" % (w, res.errtext[:1500]))
    ctx.notes["bv_selftest_widths"] = "1..%d" % maxw
