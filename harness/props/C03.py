"""C03 constant evaluation = fixed-width two's complement (BV.tla is the definition)."""
from .. import core
from .. import exprjson as X

BIN = ["+", "*", "&", "|", "^", "-", "<<", ">>", "a>>", "<<<", ">>>", "udiv", "umod", "sdiv", "smod", "/", "%",
       "==", "<u", "<=u", "<s", "<=s",
       "FLAG_EQ_CMP", "FLAG_EQ_AND", "FLAG_SIGN_SUB", "FLAG_ADD_CF", "FLAG_ADD_OF", "FLAG_SUB_CF", "FLAG_SUB_OF"]
UN = ["-", "parity", "cntleadzeros", "cnttrailzeros", "FLAG_EQ"]
TER = ["FLAG_ADDWC_CF", "FLAG_ADDWC_OF", "FLAG_SUBWC_CF", "FLAG_SUBWC_OF", "FLAG_EQ_ADDWC", "FLAG_EQ_SUBWC",
       "FLAG_SIGN_ADDWC", "FLAG_SIGN_SUBWC"]
CC = {"CC_U<=": 2, "CC_U>=": 1, "CC_S<": 2, "CC_S>": 3, "CC_S<=": 3, "CC_S>=": 2, "CC_U>": 2, "CC_U<": 1,
      "CC_NEG": 1, "CC_EQ": 1, "CC_NE": 1, "CC_POS": 1}
DIV = {"udiv", "umod", "sdiv", "smod", "/", "%"}
EMPTY = {"ids": {}, "seed": 0, "endian": "little"}


def evaluate(e):
    """miasm's own constant evaluation: the shipped simplifiers"""
    from miasm.expression.simplifications import expr_simp, expr_simp_explicit, expr_simp_high_to_explicit
    for s in (expr_simp, expr_simp_high_to_explicit, expr_simp_explicit):
        r = s(e)
        if r.is_int():
            return r
    return None


def build_items(ctx, tuples):
    """tuples: (op, [ (value,width)... ], extw) -> items + bookkeeping"""
    from miasm.expression.expression import ExprOp, ExprInt
    items, meta, problems = [], [], []
    env = X.env_json(EMPTY, {})
    for op, args, extw in tuples:
        ints = [ExprInt(v, w) for v, w in args]
        try:
            if op in ("zeroExt", "signExt"):
                e = ints[0].zeroExtend(extw) if op == "zeroExt" else ints[0].signExtend(extw)
            elif op == "slice":
                e = ints[0][extw[0]:extw[1]]
            elif op == "compose":
                from miasm.expression.expression import ExprCompose
                e = ExprCompose(*ints)
            elif op == "cond":
                from miasm.expression.expression import ExprCond
                e = ExprCond(*ints)
            else:
                e = ExprOp(op, *ints)
            r = evaluate(e)
        except Exception as ex:
            problems.append({"op": op, "args": args, "raised": type(ex).__name__ + ":" + str(ex)[:200]})
            continue
        if r is None:
            div0 = op in DIV and args[1][0] == 0
            if not div0:
                problems.append({"op": op, "args": args, "not_folded": str(e)})
            continue
        if r.size != e.size:
            problems.append({"op": op, "args": args, "size": [e.size, r.size]})
            continue
        items.append({"t": "val", "a": X.to_json(e), "env": env, "v": X.ibytes(int(r), r.size)})
        meta.append((op, args, extw, int(r)))
    return items, meta, problems


def run(ctx):
    rng = ctx.rng
    X.bv_selftest(ctx, 4 if ctx.quick else 5)
    tuples = []
    maxw = 4 if ctx.quick else 5
    # exhaustive part: every operand value for every width up to maxw
    for w in range(1, maxw + 1):
        R = range(1 << w)
        for op in BIN:
            for a in R:
                for b in R:
                    tuples.append((op, [(a, w), (b, w)], None))
        for op in UN:
            for a in R:
                tuples.append((op, [(a, w)], None))
        for a in R:
            for ew in (w, w + 1, w + 3, 2 * w + 8):
                tuples.append(("zeroExt", [(a, w)], ew))
                tuples.append(("signExt", [(a, w)], ew))
            for lo in range(w):
                for hi in range(lo + 1, w + 1):
                    tuples.append(("slice", [(a, w)], (lo, hi)))
        if w <= 3:
            for op in TER:
                for a in R:
                    for b in R:
                        for c in (0, 1):
                            tuples.append((op, [(a, w), (b, w), (c, 1)], None))
            for a in R:
                for b in R:
                    tuples.append(("compose", [(a, w), (b, w)], None))
                    tuples.append(("compose", [(a, w), (b, 1), (a, w)], None))
                    for c in (0, 1, 2):
                        tuples.append(("cond", [(c % (1 << w), w), (a, w), (b, w)], None))
    for op, n in CC.items():
        for x in range(1 << n):
            tuples.append((op, [((x >> i) & 1, 1) for i in range(n)], None))
    n_exh = len(tuples)
    # wide part: boundary and random operands
    widths = [8, 16, 32, 64] + ([7, 13, 24, 65, 128] if not ctx.quick else [13, 128])
    per = 12 if ctx.quick else 60
    for w in widths:
        bv = X.boundary_values(w)

        def pick():
            return rng.choice(bv) if rng.random() < 0.5 else rng.getrandbits(w)
        for op in BIN:
            for _ in range(per):
                a, b = pick(), pick()
                if op in ("<<", ">>", "a>>", "<<<", ">>>") and rng.random() < 0.7:
                    b = rng.choice([0, 1, w - 1, w, w + 1, 2 * w, rng.randrange(0, w)])
                tuples.append((op, [(a, w), (b, w)], None))
        for op in UN:
            for _ in range(per):
                tuples.append((op, [(pick(), w)], None))
        for op in TER:
            for _ in range(per // 2):
                tuples.append((op, [(pick(), w), (pick(), w), (rng.randrange(2), 1)], None))
        for _ in range(per):
            tuples.append(("zeroExt", [(pick(), w)], w + rng.choice([0, 1, 8, 64])))
            tuples.append(("signExt", [(pick(), w)], w + rng.choice([0, 1, 8, 64])))
            lo = rng.randrange(w)
            tuples.append(("slice", [(pick(), w)], (lo, rng.randrange(lo + 1, w + 1))))
    items, meta, problems = build_items(ctx, tuples)
    for p in problems[:50]:
        ctx.violation("constant-evaluation-failed", p)
    verdicts = X.judge(ctx, items, label="c03")
    nbad = 0
    for v, m in zip(verdicts, meta):
        if v == "ok":
            continue
        if v in ("undef",):
            # the reference leaves division by zero undefined: nothing is required
            continue
        nbad += 1
        ctx.violation("constant-value-mismatch", {"op": m[0], "args": m[1], "ext": m[2], "miasm": m[3], "verdict": v})
    ctx.traces += len(items)
    ctx.evaluations += len(items)
    ctx.distinct = set((m[0], tuple(map(tuple, m[1])), str(m[2])) for m in meta)
    ctx.sample({"op": meta[0][0], "args": meta[0][1], "miasm_value": meta[0][3], "tlc_verdict": verdicts[0]})
    k = len(meta) // 2
    ctx.sample({"op": meta[k][0], "args": meta[k][1], "miasm_value": meta[k][3], "tlc_verdict": verdicts[k]})
    ctx.sample({"op": meta[-1][0], "args": meta[-1][1], "ext": meta[-1][2], "miasm_value": meta[-1][3], "tlc_verdict": verdicts[-1]})
    ctx.notes["exhaustive_tuples"] = n_exh
    ctx.notes["exhaustive_widths"] = "1..%d (ternary flag ops, compose, cond: 1..3)" % maxw
    ctx.notes["sampled_widths"] = widths
    ctx.notes["exhaustive"] = False
    ctx.notes["verdict_counts"] = {v: verdicts.count(v) for v in set(verdicts)}
    ctx.assumptions += ["BV.tla (bit-level definitions, self-checked against integer arithmetic by BVTest.tla for widths 1..5) is the reference",
                        "division/modulo by zero is undefined and not judged"]
    return ("(operator, widths, operand values) tuples: all values for widths 1..%d, boundary+random for wider; miasm's "
            "folded constant is judged by TLC evaluating Expr.tla/BV.tla; distinct = distinct tuples" % maxw)
