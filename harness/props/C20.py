from .. import jitprops


def run(ctx):
    return jitprops.c20(ctx)
