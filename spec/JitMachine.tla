------------------------------ MODULE JitMachine ------------------------------
(* Reference CPU for the jitter properties (C20 - C23, C49): an abstract          *)
(* instruction set whose every instruction has one fixed x86-32 encoding           *)
(* (harness/jitdrv.py), executed ONE INSTRUCTION AT A TIME - no blocks, no cache:  *)
(* this is the meaning every backend, block length, execution limit and cache      *)
(* state must reproduce.                                                           *)
(*                                                                                 *)
(*   RT i        acc := 3*acc + i  (mod 2^32)     LEA EAX,[EAX+EAX*2+i]  (hash chain *)
(*                                                 of the executed instructions)    *)
(*   PU i        push i                            PUSH imm8  (log kept in memory)   *)
(*   DEC         cnt := cnt - 1, zf := (cnt = 0)   DEC ECX                           *)
(*   JNZ t / JMP t   branch to slot t              Jcc / JMP rel8                    *)
(*   LOOP t      cnt := cnt - 1; branch if # 0     LOOP rel8 (may target itself)     *)
(*   ST a v      byte store                        MOV BYTE [abs32], imm8            *)
(*   ST4 a v     4-byte store of v,v+1,v+2,v+3     MOV DWORD [abs32], imm32          *)
(*   LD a        low byte of acc := mem[a]         MOV AL, [abs32]                   *)
(*   PUM a       push the dword at a                PUSH DWORD [abs32]  (a load AND a store) *)
(*   INCM a      mem[a] := mem[a] + 1 (byte)        INC BYTE [abs32]    (read-modify-write)  *)
(*   PATCH s v   store v over the immediate of the instruction in slot s (code)      *)
(*   PATCHS s    the same with a string store (STOSB, several IR blocks) of acc's low byte *)
(*                                                                                 *)
(* A memory access faults when any byte it touches is unmapped or lacks the        *)
(* permission: the instruction then has NO effect, pc stays on it and the fault is *)
(* reported.  A breakpoint fires each time pc reaches its slot at an instruction   *)
(* boundary; a stopping one ends the run with pc there.                            *)
(* A script drives one CPU: run / cont / host patch / add, remove breakpoint /     *)
(* repair (map and unprotect data, clear the fault) / reset (registers and data,   *)
(* NOT the code: what a second run on a warm translation cache starts from).       *)
EXTENDS Integers, Sequences, FiniteSets, TLC

M16 == 65536
(* acc is a pair <<hi, lo>> of 16-bit limbs (TLC integers are 32-bit) *)
(* the immediate is a sign-extended byte: i >= 128 stands for i - 256, i.e. + 0xFFFFFF00 + i modulo 2^32 *)
Hash(acc, i) == IF i < 128 THEN LET l == 3 * acc[2] + i IN <<(3 * acc[1] + (l \div M16)) % M16, l % M16>>
                ELSE LET l == 3 * acc[2] + 65280 + i IN <<(3 * acc[1] + 65535 + (l \div M16)) % M16, l % M16>>
PushVal(i) == IF i < 128 THEN <<0, i>> ELSE <<65535, 65280 + i>>        \* pushed words as <<hi, lo>> 16-bit limbs
SetLow(acc, b) == <<acc[1], (acc[2] - (acc[2] % 256)) + b>>

(* data memory: pages are records [base, size, perm] with perm in {"rw", "ro", "wo"}; dm maps written addresses to bytes, *)
(* unwritten mapped bytes read as (address mod 251)                                                               *)
PageOf(pages, a) == {i \in 1..Len(pages) : pages[i].base <= a /\ a < pages[i].base + pages[i].size}
Mapped(pages, a) == PageOf(pages, a) # {}
CanRead(pages, a) == \E i \in PageOf(pages, a) : pages[i].perm \in {"rw", "ro"}
CanWrite(pages, a) == \E i \in PageOf(pages, a) : pages[i].perm \in {"rw", "wo"}
RdByte(st, a) == IF a \in DOMAIN st.dm THEN st.dm[a] ELSE a % 251
WrBytes(dm, a, bs) == [x \in DOMAIN dm \cup {a + k - 1 : k \in 1..Len(bs)} |->
                         IF x >= a /\ x < a + Len(bs) THEN bs[x - a + 1] ELSE dm[x]]

(* one instruction; returns the new state (st.fault = TRUE and nothing else changed when it faults) *)
Step(st) ==
  LET ins == st.prog[st.pc + 1] nxt == st.pc + 1 IN
  CASE ins.k = "RT" -> [st EXCEPT !.acc = Hash(st.acc, ins.i), !.pc = nxt]
    [] ins.k = "PU" -> IF st.stackok THEN [st EXCEPT !.stack = Append(st.stack, PushVal(ins.i)), !.pc = nxt]
                       ELSE [st EXCEPT !.fault = TRUE]
    [] ins.k = "DEC" -> [st EXCEPT !.cnt = (st.cnt + M16 - 1) % M16, !.zf = (st.cnt = 1), !.pc = nxt]
    [] ins.k = "JNZ" -> [st EXCEPT !.pc = IF st.zf THEN nxt ELSE ins.t]
    [] ins.k = "JMP" -> [st EXCEPT !.pc = ins.t]
    [] ins.k = "LOOP" -> LET c == (st.cnt + M16 - 1) % M16 IN [st EXCEPT !.cnt = c, !.pc = IF c # 0 THEN ins.t ELSE nxt]
    [] ins.k = "ST" -> IF CanWrite(st.pages, ins.a) THEN [st EXCEPT !.dm = WrBytes(st.dm, ins.a, <<ins.v>>), !.pc = nxt]
                       ELSE [st EXCEPT !.fault = TRUE]
    [] ins.k = "ST4" -> IF \A k \in 0..3 : CanWrite(st.pages, ins.a + k)
                        THEN [st EXCEPT !.dm = WrBytes(st.dm, ins.a, <<ins.v, ins.v + 1, ins.v + 2, ins.v + 3>>), !.pc = nxt]
                        ELSE [st EXCEPT !.fault = TRUE]
    [] ins.k = "LD" -> IF CanRead(st.pages, ins.a) THEN [st EXCEPT !.acc = SetLow(st.acc, RdByte(st, ins.a)), !.pc = nxt]
                       ELSE [st EXCEPT !.fault = TRUE]
    (* a load and a store in one instruction: nothing is stored when the load faults *)
    [] ins.k = "PUM" -> IF st.stackok /\ \A k \in 0..3 : CanRead(st.pages, ins.a + k)
                        THEN [st EXCEPT !.stack = Append(st.stack, <<RdByte(st, ins.a + 3) * 256 + RdByte(st, ins.a + 2),
                                                                     RdByte(st, ins.a + 1) * 256 + RdByte(st, ins.a)>>), !.pc = nxt]
                        ELSE [st EXCEPT !.fault = TRUE]
    [] ins.k = "INCM" -> IF CanRead(st.pages, ins.a) /\ CanWrite(st.pages, ins.a)
                         THEN [st EXCEPT !.dm = WrBytes(st.dm, ins.a, <<(RdByte(st, ins.a) + 1) % 256>>), !.pc = nxt]
                         ELSE [st EXCEPT !.fault = TRUE]
    [] ins.k = "PATCH" -> [st EXCEPT !.prog[ins.s + 1].i = ins.v, !.pc = nxt]
    (* STOSB with the string pointer on the immediate of slot s: stores the low byte of acc there (the pointer then moves on: *)
    (* one execution per run)                                                                                               *)
    [] ins.k = "PATCHS" -> [st EXCEPT !.prog[ins.s + 1].i = st.acc[2] % 256, !.pc = nxt]

(* memory breakpoints: records [a, n, r, w]; the bytes an instruction reads / writes (data accesses only) *)
Touch(ins) == CASE ins.k = "ST" -> [r |-> {}, w |-> {ins.a}]
                [] ins.k = "ST4" -> [r |-> {}, w |-> ins.a..(ins.a + 3)]
                [] ins.k = "LD" -> [r |-> {ins.a}, w |-> {}]
                [] ins.k = "PUM" -> [r |-> ins.a..(ins.a + 3), w |-> {}]
                [] ins.k = "INCM" -> [r |-> {ins.a}, w |-> {ins.a}]
                [] OTHER -> [r |-> {}, w |-> {}]
HitsMbp(st, ins) == \E i \in 1..Len(st.mbps) :
                      LET b == st.mbps[i] rng == b.a..(b.a + b.n - 1) IN
                      (b.r /\ Touch(ins).r \cap rng # {}) \/ (b.w /\ Touch(ins).w \cap rng # {})

(* run until: the end slot (always a stopping breakpoint), a stopping breakpoint, a fault, or the fuel is spent *)
RECURSIVE Run(_, _, _)
RECURSIVE After(_, _, _)
Run(st, fuel, first) ==
  IF fuel = 0 THEN [st EXCEPT !.stop = "fuel"]
  ELSE IF st.pc = Len(st.prog) THEN [st EXCEPT !.stop = "end", !.hits = Append(st.hits, st.pc)]
  ELSE IF st.pc \in DOMAIN st.bps /\ ~(first /\ st.resume)
       THEN (IF st.bps[st.pc] THEN [st EXCEPT !.stop = "bp", !.hits = Append(st.hits, st.pc)]
             ELSE After(st, Step([st EXCEPT !.hits = Append(st.hits, st.pc)]), fuel))
  ELSE After(st, Step(st), fuel)
(* after one instruction: a fault stops on it; a memory breakpoint it touched stops AFTER it (pc on the next instruction) *)
After(st, s2, fuel) ==
  IF s2.fault THEN [s2 EXCEPT !.stop = "fault"]
  ELSE IF HitsMbp(st, st.prog[st.pc + 1]) THEN [s2 EXCEPT !.stop = "membp"]
  ELSE Run(s2, fuel - 1, FALSE)

(* the script *)
InitState(it) == [prog |-> it.prog, pc |-> 0, acc |-> it.acc, cnt |-> it.cnt, zf |-> FALSE, stack |-> <<>>, stackok |-> it.stackok,
                  pages |-> it.pages, dm |-> <<>>, bps |-> <<>>, mbps |-> <<>>, hits |-> <<>>, fault |-> FALSE, stop |-> "none", resume |-> FALSE]
WithBp(bps, s, stops) == [x \in DOMAIN bps \cup {s} |-> IF x = s THEN stops ELSE bps[x]]
WithoutBp(bps, s) == [x \in DOMAIN bps \ {s} |-> bps[x]]
ApplyCmd(st, c, it) ==
  CASE c.c = "run" -> Run([st EXCEPT !.pc = c.s, !.fault = FALSE, !.stop = "none", !.resume = FALSE], it.fuel, TRUE)
    [] c.c = "addmbp" -> [st EXCEPT !.mbps = Append(st.mbps, [a |-> c.a, n |-> c.n, r |-> c.r, w |-> c.w])]
    [] c.c = "cont" -> IF st.stop \in {"bp", "fault", "membp"}
                       THEN Run([st EXCEPT !.fault = FALSE, !.stop = "none", !.resume = (st.stop = "bp")], it.fuel, TRUE)
                       ELSE st                      \* nothing to continue: the run reached the end
    [] c.c = "patch" -> [st EXCEPT !.prog[c.s + 1].i = c.v]
    [] c.c = "addbp" -> [st EXCEPT !.bps = WithBp(st.bps, c.s, c.stops)]
    [] c.c = "rmbp" -> [st EXCEPT !.bps = WithoutBp(st.bps, c.s)]
    [] c.c = "repair" -> [st EXCEPT !.pages = it.repaired, !.stackok = TRUE, !.fault = FALSE]
    [] c.c = "reset" -> [st EXCEPT !.acc = it.acc, !.cnt = it.cnt, !.zf = FALSE, !.stack = <<>>, !.dm = <<>>, !.hits = <<>>,
                                   !.fault = FALSE, !.stop = "none", !.pc = 0]

(* what is compared after each run / cont: obs is the record the harness read from the real jitter *)
Window(st, addrs) == [i \in 1..Len(addrs) |-> IF Mapped(st.pages, addrs[i]) THEN RdByte(st, addrs[i]) ELSE -1]
Differs(st, o, it) ==
  IF st.stop = "fuel" THEN "ok"                                      \* the reference did not finish within the fuel: nothing compared
  ELSE IF o.crashed # "" THEN "backend-raised:" \o o.crashed
  ELSE IF o.stop # st.stop THEN "stop:" \o o.stop \o "/" \o st.stop
  ELSE IF o.pc # st.pc THEN "pc:" \o ToString(o.pc) \o "/" \o ToString(st.pc)
  ELSE IF <<o.acchi, o.acclo>> # st.acc THEN "acc"
  ELSE IF o.cnt # st.cnt THEN "cnt"
  ELSE IF o.stack # st.stack THEN "stack"
  ELSE IF o.window # Window(st, it.window) THEN "memory"
  ELSE IF o.below # "untouched" THEN "memory-below-the-stack-pointer"      \* no instruction of this machine writes there
  ELSE IF o.hits # st.hits THEN "breakpoint-hits"
  ELSE IF o.fault # st.fault THEN "fault-flag"
  ELSE "ok"

RECURSIVE Play(_, _, _, _)
Play(st, k, j, it) ==          \* k: position in the script, j: position in the observations
  IF k > Len(it.script) THEN "ok"
  ELSE LET s2 == ApplyCmd(st, it.script[k], it) IN
       IF it.script[k].c \in {"run", "cont"}
       THEN LET d == Differs(s2, it.obs[j], it) IN
            IF d # "ok" THEN "bad:" \o ToString(k) \o ":" \o d
            ELSE IF s2.stop = "fuel" THEN "ok"
            ELSE Play(s2, k + 1, j + 1, it)
       ELSE Play(s2, k + 1, j, it)
Verdict(it) == Play(InitState(it), 1, 1, it)
=============================================================================
