"""C48 emulated allocators return fresh, non-overlapping, mapped regions: Alloc.tla validates recorded request histories."""
import itertools

from .. import core, sm, overlay

SIZES = [0, 1, 0xfff, 0x1000, 0x1001]
KINDS = ["heap", "VirtualAlloc", "HeapAlloc", "malloc", "mmap", "mmaphint", "mmapfixed", "brk"]
MAP_PRIVATE, MAP_FIXED, MAP_ANON = 2, 0x10, 0x20


class Session(object):
    """one emulated process: a python-backend x86-32 jitter, a fresh process heap, a fresh Linux environment"""

    def __init__(self, family="win"):
        self.family = family
        from miasm.analysis.machine import Machine
        from miasm.core.locationdb import LocationDB
        from miasm.os_dep import win_api_x86_32 as win
        from miasm.os_dep.common import heap
        from miasm.os_dep.linux.environment import LinuxEnvironment_x86_32
        self.win = win
        self.j = Machine("x86_32").jitter(LocationDB(), "python")
        self.j.init_stack()
        win.winobjs.heap = heap()
        win.winobjs.allocated_pages = {}
        self.heap = win.winobjs.heap
        self.env = LinuxEnvironment_x86_32()
        self.fixed_next = 0x31000000

    def stdcall(self, func, *args):
        j = self.j
        for a in reversed(args):
            j.push_uint32_t(a)
        j.push_uint32_t(0x1337beef)
        func(j)
        return j.cpu.EAX

    def cdecl(self, func, *args):
        j = self.j
        esp = j.cpu.ESP
        r = self.stdcall(func, *args)
        j.cpu.ESP = esp
        return r

    def alloc(self, kind, n):
        win, vm = self.win, self.j.vm
        if kind == "heap":
            return self.heap.vm_alloc(vm, n)
        if kind == "VirtualAlloc":
            return self.stdcall(win.kernel32_VirtualAlloc, 0, n, 0x3000, 0x4)
        if kind == "HeapAlloc":
            return self.stdcall(win.kernel32_HeapAlloc, 0x1234, 0, n)
        if kind == "malloc":
            return self.cdecl(win.msvcrt_malloc, n)
        if kind == "mmap":
            return self.env.mmap(0, n, 3, MAP_PRIVATE | MAP_ANON, 0xffffffff, 0, vm)
        if kind == "mmaphint":
            # a hint inside / next to what is already mapped: the allocator has to look for room
            pages = sorted(b for b in vm.get_all_memory() if b >= 0x75000000 or b < 0x10000000)     # not inside the brk area
            hint = pages[len(pages) // 2] if pages else 0x30000000
            return self.env.mmap(hint, n, 3, MAP_PRIVATE | MAP_ANON, 0xffffffff, 0, vm)
        if kind == "mmapfixed":
            a = self.fixed_next
            self.fixed_next += 0x10000
            return self.env.mmap(a, n, 3, MAP_PRIVATE | MAP_ANON | MAP_FIXED, 0xffffffff, 0, vm)
        if kind in ("foreign", "foreignbrk"):
            # another component (a loader, a fixed mapping) maps a page just above the allocator's cursor: it is a live mapping
            # the following allocations have to stay clear of (refusing - raising - is fine, overlapping is not)
            from miasm.jitter.csts import PAGE_READ, PAGE_WRITE
            if self.family == "win":
                a = self.heap.addr + 0x2000
            elif kind == "foreign":
                a = self.env.mmap_current + 0x2000
            else:
                a = ((self.env.brk_current + 0xfff) & ~0xfff) + 0x1000
            vm.add_memory_page(a, PAGE_READ | PAGE_WRITE, b"F" * max(n, 1), "foreign")
            return a
        if kind == "brk":
            old = self.env.brk(0, vm)
            if n == 0:
                return None
            new = self.env.brk(old + n, vm)          # sbrk(n): the region is [old break, new break)
            if new != old + n:
                raise AssertionError("brk returned %#x for a request of %#x" % (new, old + n))
            return old
        raise core.MachineryError(kind)

    def pages(self):
        return [{"base": b, "size": info["size"]} for b, info in sorted(self.j.vm.get_all_memory().items())]


REFUSED = {}


def record(seq):
    s = Session("linux" if any(k in KINDS[4:] or k == "foreignbrk" for k, _ in seq) else "win")
    tr = []
    for kind, n in seq:
        try:
            a = s.alloc(kind, n)
        except Exception as ex:
            # a refused request allocates nothing: the history ends here (refusals are counted in the evidence)
            REFUSED[kind + ":" + type(ex).__name__] = REFUSED.get(kind + ":" + type(ex).__name__, 0) + 1
            break
        if a is None:
            continue
        tr.append({"o": {"kind": kind, "n": n}, "ret": "ok", "a": a, "pages": s.pages() + [{"base": 0, "size": 0}], "st": {}})
    return tr


def run(ctx):
    overlay.activate(ctx, ("VmMngr", "JitCore_x86"))
    q = ctx.quick
    rng = ctx.rng
    seqs = []
    # one emulated process is either a Windows one (process heap family) or a Linux one (mmap / brk)
    for fam in (KINDS[:4], KINDS[4:]):
        reqs = [(k, n) for k in fam for n in SIZES]
        # every pair (and, thorough, triple) of requests, then longer random mixes
        for a in reqs:
            for b in reqs:
                seqs.append([a, b])
        if not q:
            for t in itertools.product(reqs[::2], repeat=3):
                seqs.append(list(t))
        for _ in range(150 if q else 1500):
            seqs.append([rng.choice(reqs) for _ in range(rng.randrange(3, 9))])
    # a foreign page in the allocator's way (it is the highest mapping of the address space), then requests that run into it
    for fam, foreign in ((KINDS[:4], ["foreign"]), (KINDS[4:], ["foreign", "foreignbrk"])):
        for f in foreign:
            for k in fam:
                for fn in (1, 0x1000):
                    for n in (0x800, 0x1000, 0x3000, 0x5000):
                        seqs.append([(f, fn), (k, n), (k, n)])
                        seqs.append([(k, 0x800), (f, fn), (k, n), (k, 0x20)])
                        seqs.append([(k, 0x800), (k, 1), (k, 1), (f, fn), (k, n)])
                    # the cursor arrives exactly on the foreign page, then an empty request
                    seqs.append([(f, fn), (k, 0x1000), (k, 0x1000), (k, 0), (k, 0x10)])
                    seqs.append([(f, fn), (k, 1), (k, 1), (k, 0), (k, 0)])
            for _ in range(60 if q else 600):
                seq = [rng.choice([(k, n) for k in fam for n in SIZES + [0x3000]]) for _ in range(rng.randrange(2, 7))]
                seq.insert(rng.randrange(0, len(seq)), (f, rng.choice([1, 0x1000, 0x2000])))
                seqs.append(seq)
    # same kind and size repeated (zero-sized ones included): the classic way to get the same address twice
    for k in KINDS:
        for n in SIZES:
            seqs.append([(k, n)] * 4)
            seqs.append([(k, 0), (k, n), (k, 0), (k, 0x20)])
    traces = [record(s) for s in seqs]
    traces = [t for t in traces if t]
    brk_rejects = []

    def defer_brk(ctx_, detail):
        if detail["rejected_event"] and detail["rejected_event"]["o"]["kind"] == "brk" and "brk-absorbs-foreign-mappings" in ctx.findings:
            brk_rejects.append(traces[detail["trace_index"] - 1])
            return True
        return False
    sm.trace_validate(ctx, "Alloc", {"BrkAbsorbs": "FALSE"}, traces, tdo="Do(e.o, e.a, e.pages)", timeout=3000, classify=defer_brk)
    if brk_rejects:
        # histories rejected at a brk: validated again (whole history) with the recorded deviation admitted; what is still
        # rejected is a violation, the others are the known finding
        bad = sm.trace_validate(ctx, "Alloc", {"BrkAbsorbs": "TRUE"}, brk_rejects, label="brkabsorb", tdo="Do(e.o, e.a, e.pages)", timeout=3000)
        if len(bad) < len(brk_rejects):
            ok = [t for i, t in enumerate(brk_rejects, 1) if i not in [b[0] for b in bad]][0]
            ctx.known("brk-absorbs-foreign-mappings", "%d histories, e.g. %s" % (
                len(brk_rejects) - len(bad), [(e["o"]["kind"], hex(e["o"]["n"]), hex(e["a"])) for e in ok]))
        ctx.notes["histories_accepted_only_with_the_brk_deviation"] = len(brk_rejects) - len(bad)

    def corrupt(ts):
        ts[0][-1]["a"] = ts[0][0]["a"]
        return "second allocation reported at the first one's address"
    two = [t for t in traces if len(t) >= 2 and t[0]["a"] != t[1]["a"]][:3]
    sm.selftest_trace_binding(ctx, "Alloc", {"BrkAbsorbs": "FALSE"}, two, corrupt, tdo="Do(e.o, e.a, e.pages)")
    ctx.notes["request_sequences"] = len(seqs)
    ctx.notes["refused_requests"] = dict(REFUSED)
    ctx.assumptions += ["x86-32 environments: process heap (heap.vm_alloc, VirtualAlloc(NULL), HeapAlloc, malloc through the stubs on a "
                        "python-backend jitter), LinuxEnvironment mmap (no hint, hint, MAP_FIXED at a free address) and brk",
                        "a 'foreign' request maps a page directly in the VM just above the allocator's cursor; it is live like any other",
                        "MAP_FIXED over an existing mapping (which replaces it by design) and frees are not exercised"]
    return ("request histories (every pair - thorough: triples - of {heap, VirtualAlloc, HeapAlloc, malloc, mmap, mmap with hint, "
            "mmap fixed, brk} x sizes {0, 1, 0xfff, 0x1000, 0x1001}, repeats, random mixes up to 8 requests) are executed and every "
            "returned address with the emulator's page list is validated by TLC against Alloc.tla: covered by mapped pages, disjoint "
            "from and distinct of every live allocation")
