"""Shared driver for C04..C07: an expression is translated by one of miasm's translators, the
translation is evaluated by its target (z3 python API, /usr/bin/z3 on SMT-LIB2 text, the Python
interpreter, gcc + the jitter runtime), and TLC judges every recorded (expression, environment,
value) against Expr.tla.  NotImplementedError = "unsupported" is legal; any other exception,
or a wrong value where the reference is defined, is a violation."""
import json
import os
import subprocess

from . import core
from . import exprjson as X
from . import exprgen


def corpus(ctx, n_random, n_shaped, enum_widths, widths=None, odd=None, ptr=32, allow_mem=True, depths=(1, 2, 2, 3)):
    rng = ctx.rng
    g = exprgen.Gen(rng, widths=widths, ptr=ptr, allow_mem=allow_mem)
    exprs = []
    odd = exprgen.ODD if odd is None else odd
    for _ in range(n_random):
        w = rng.choice((widths or exprgen.WIDTHS) + ([rng.choice(odd)] if odd else []))
        exprs.append(g.expr(w, rng.choice(depths)))
    for _ in range(n_shaped):
        exprs.append(g.shaped())
    small = []
    for e in exprgen.enumerate_small(enum_widths):
        small.append(e)
    return small, exprs


def run_translator(ctx, pid, name, translate_eval, small, exprs, nenv_small=64, nenv=5, endians=("little",),
                   classify=None):
    """translate_eval(expr, sizes, envs) -> list of int values (one per env) | raises NotImplementedError.
    Returns counters."""
    rng = ctx.rng
    items, meta = [], []
    unsupported = {}
    raised = []
    for idx, e in enumerate(small + exprs):
        exhaustive = idx < len(small)
        try:
            ja = X.to_json(e)
        except ValueError:
            continue
        sizes = X.ids_of(e)
        total = sum(sizes.values())
        for endian in endians:
            if exhaustive and total <= 6:
                envs = X.all_envs(sizes, endian=endian)
            else:
                envs = X.make_envs(sizes, rng, nenv, endian=endian)
            try:
                vals = translate_eval(e, sizes, envs)
            except NotImplementedError as ex:
                key = str(ex)[:60]
                unsupported[key] = unsupported.get(key, 0) + 1
                break
            except Exception as ex:
                raised.append((e, type(ex).__name__ + ":" + str(ex)[:200]))
                break
            keep_envs, keep_vals = [], []
            for env, v in zip(envs, vals):
                if v is None:          # the target left the point undefined (e.g. division by zero trap)
                    continue
                keep_envs.append(X.env_json(env, sizes))
                keep_vals.append(X.ibytes(v, e.size))
            if keep_envs:
                items.append({"t": "vals", "a": ja, "envs": keep_envs, "vs": keep_vals})
                meta.append((e, endian, envs, vals, exhaustive))
    verdicts = X.judge(ctx, items, label=pid.lower() + "_" + name, chunk=3000)
    counts = {}
    nviol = 0
    for v, m in zip(verdicts, meta):
        key = v.split(":")[0]
        counts[key] = counts.get(key, 0) + 1
        if key == "bad":
            k = int(v.split(":")[1]) - 1
            detail = {"translator": name, "expr": str(m[0]), "endian": m[1], "env": m[2][k] if k < len(m[2]) else None,
                      "translated_value": m[3][k] if k < len(m[3]) else None, "verdict": v}
            if classify and classify(ctx, m[0], detail):
                continue
            nviol += 1
            ctx.violation("translation-value-mismatch", detail)
    for e, what in raised:
        detail = {"translator": name, "expr": str(e), "raised": what}
        if classify and classify(ctx, e, detail):
            continue
        nviol += 1
        ctx.violation("translation-raised", detail)
    ctx.traces += len(items)
    ctx.evaluations += sum(len(i["envs"]) for i in items)
    for m in meta:
        ctx.distinct.add((name, str(m[0]), m[1]))
    if meta:
        for k in (0, len(meta) // 2, len(meta) - 1):
            ctx.sample({"translator": name, "expr": str(meta[k][0])[:200], "endian": meta[k][1],
                        "env": meta[k][2][0], "value": meta[k][3][0], "tlc_verdict": verdicts[k]})
    ctx.notes.setdefault("translators", {})[name] = {
        "expressions_judged": len(items), "verdicts": counts, "unsupported": unsupported, "raised": len(raised)}
    return nviol
