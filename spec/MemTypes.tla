------------------------------- MODULE MemTypes -------------------------------
(* Typed memory views (property C34): miasm.core.types lays structures out         *)
(* sequentially (no alignment), unions at offset 0, arrays element after element,   *)
(* bit-fields inside a backing number.  The state is the memory region; a step      *)
(* writes one member through a view: exactly the member's extent changes, to the    *)
(* member's encoding of the value (byte order of the number; for a bit-field member *)
(* only its bits of the backing number); reading it back gives the value written    *)
(* (reduced to the member's width); reported offsets and sizes are the layout's.    *)
EXTENDS CLayout, OsHelpers

Rev(s) == [i \in 1..Len(s) |-> s[Len(s) + 1 - i]]
RECURSIVE SumTo(_, _)
SumTo(ws, k) == IF k = 0 THEN 0 ELSE ws[k] + SumTo(ws, k - 1)
(* op = [kind |-> "set", path, bit (0: the whole number, i: member i of the bit-field), val (little-endian bytes of the value),   *)
(*       after (region after the call), back (little-endian bytes read back), roff, rsize (reported offset and size)]            *)
Expected(m, t, op) ==
  LET leaf == TypeAt(t, op.path)  off == Offset(t, op.path, TRUE)  n == leaf.size
      old == Get(m, off, n)
      oldbits == BitsOf(IF leaf.be THEN Rev(old) ELSE old)
      valbits == ZeroExt(BitsOf(op.val), 8 * n)
      bo == IF op.bit = 0 THEN 0 ELSE SumTo(leaf.bits, op.bit - 1)
      w == IF op.bit = 0 THEN 8 * n ELSE leaf.bits[op.bit]
      newbits == [i \in 1..(8 * n) |-> IF i > bo /\ i <= bo + w THEN valbits[i - bo] ELSE oldbits[i]]
      newbytes == IF leaf.be THEN Rev(BytesOf(newbits)) ELSE BytesOf(newbits)
  IN [m |-> Put(m, off, newbytes), back |-> BytesOf([i \in 1..(8 * n) |-> IF i <= w THEN valbits[i] ELSE 0]), off |-> off, size |-> n]
StrExpected(m, op) == [m |-> Put(m, op.off, op.raw \o [i \in 1..op.term |-> 0]), size |-> Len(op.raw) + op.term]

RECURSIVE Play(_, _, _, _)
Play(m, t, ops, i) ==
  IF i > Len(ops) THEN "ok"
  ELSE LET op == ops[i] IN
       IF op.raised # "" THEN "bad:" \o ToString(i) \o ":raised:" \o op.raised
       ELSE IF op.kind = "str"
       THEN LET e == StrExpected(m, op) IN
            IF op.after # e.m THEN "bad:" \o ToString(i) \o ":string-bytes-in-memory"
            ELSE IF op.rsize # e.size THEN "bad:" \o ToString(i) \o ":reported-string-size:" \o ToString(op.rsize) \o "/" \o ToString(e.size)
            ELSE IF op.back # op.raw THEN "bad:" \o ToString(i) \o ":string-read-back"
            ELSE Play(e.m, t, ops, i + 1)
       ELSE LET e == Expected(m, t, op) IN
            IF op.roff # e.off THEN "bad:" \o ToString(i) \o ":reported-offset:" \o ToString(op.roff) \o "/" \o ToString(e.off)
            ELSE IF op.rsize # e.size THEN "bad:" \o ToString(i) \o ":reported-size"
            ELSE IF op.after # e.m THEN "bad:" \o ToString(i) \o ":memory-after-the-write"
            ELSE IF op.back # e.back THEN "bad:" \o ToString(i) \o ":value-read-back"
            ELSE Play(e.m, t, ops, i + 1)
MVerdict(it) == IF it.rsize # SizeOf(it.t, TRUE) THEN "bad:0:reported-type-size:" \o ToString(it.rsize) \o "/" \o ToString(SizeOf(it.t, TRUE))
                ELSE Play(it.m0, it.t, it.ops, 1)
=============================================================================
