----------------------------- MODULE StrPatchwork -----------------------------
(* miasm.loader.strpatchwork.StrPatchwork (property C33): a byte string that     *)
(* grows with padding.  Bytes are small naturals; the padding byte is Pad.       *)
EXTENDS Integers, Sequences, FiniteSets, TLC

CONSTANTS Alpha,     \* set of byte values used for written data
          Pad,       \* the padding byte
          Idx,       \* set of indices used by operations
          Pats,      \* set of search patterns (non-empty sequences)
          Datas,     \* set of data strings written / appended
          MaxLen     \* state constraint on the buffer length

VARIABLES s, ret,
          cached    \* ghost: a search has cached the content since the last write (implementation keeps
                    \* a search cache; tracking it makes TLC explore search/write/search histories)
vars == <<s, ret, cached>>

R(t, b, n) == [t |-> t, b |-> b, n |-> n]      \* uniform result record
None == R("none", <<>>, 0)

Init == s = <<>> /\ ret = None /\ cached = FALSE

PadTo(q, n) == IF Len(q) >= n THEN q ELSE q \o [i \in 1..(n - Len(q)) |-> Pad]
Slice(q, a, b) == IF b <= a THEN <<>> ELSE SubSeq(q, a + 1, IF b > Len(q) THEN Len(q) ELSE b)   \* python q[a:b], 0-based

(* reads: any index, at or past the end included, returns the byte or padding *)
GetIdx(i) == /\ ret' = R("bytes", IF i < Len(s) THEN <<s[i + 1]>> ELSE <<Pad>>, 0) /\ s' = s
GetSlice(a, b) == /\ ret' = R("bytes", Slice(PadTo(s, b), a, b), 0) /\ s' = s
GetAll == ret' = R("bytes", s, 0) /\ s' = s
LenOp == ret' = R("int", <<>>, Len(s)) /\ s' = s

(* writes change exactly the targeted bytes (growing with padding first) *)
SetIdx(i, d) ==      \* sp[i] = d  writes Len(d) bytes at i
  LET q == PadTo(s, i + Len(d)) IN
  /\ s' = [k \in 1..Len(q) |-> IF k > i /\ k <= i + Len(d) THEN d[k - i] ELSE q[k]]
  /\ ret' = None
SetSlice(a, b, d) == \* sp[a:b] = d with a <= b (resizes like bytearray when Len(d) # b-a)
  LET q == PadTo(s, b) IN
  /\ a <= b
  /\ s' = SubSeq(q, 1, a) \o d \o SubSeq(q, b + 1, Len(q))
  /\ ret' = None
IAdd(d) == s' = s \o d /\ ret' = None

(* searches reflect the current content *)
OccursAt(p, i) == i + Len(p) <= Len(s) /\ \A k \in 1..Len(p) : s[i + k] = p[k]
Occ(p, from) == {i \in from..Len(s) : OccursAt(p, i)}
Min(S) == CHOOSE x \in S : \A y \in S : x <= y
Max(S) == CHOOSE x \in S : \A y \in S : x >= y
Find(p, from) == /\ ret' = R("int", <<>>, IF Occ(p, from) = {} THEN -1 ELSE Min(Occ(p, from))) /\ s' = s
RFind(p, from) == /\ ret' = R("int", <<>>, IF Occ(p, from) = {} THEN -1 ELSE Max(Occ(p, from))) /\ s' = s
Contains(p) == /\ ret' = R("bool", <<>>, IF Occ(p, 0) # {} THEN 1 ELSE 0) /\ s' = s

IsSearch(o) == o.op \in {"Find", "RFind"}
IsWrite(o) == o.op \in {"SetIdx", "SetSlice", "IAdd"}
Do(o) == /\ cached' = IF IsSearch(o) THEN TRUE ELSE IF IsWrite(o) THEN FALSE ELSE cached
         /\ CASE o.op = "GetIdx"   -> GetIdx(o.i)
           [] o.op = "GetSlice" -> GetSlice(o.a, o.b)
           [] o.op = "GetAll"   -> GetAll
           [] o.op = "Len"      -> LenOp
           [] o.op = "SetIdx"   -> SetIdx(o.i, o.d)
           [] o.op = "SetSlice" -> SetSlice(o.a, o.b, o.d)
           [] o.op = "IAdd"     -> IAdd(o.d)
           [] o.op = "Find"     -> Find(o.p, o.i)
           [] o.op = "RFind"    -> RFind(o.p, o.i)
           [] o.op = "Contains" -> Contains(o.p)

Ops == [op : {"GetIdx"}, i : Idx] \cup [op : {"GetSlice"}, a : Idx, b : Idx]
       \cup [op : {"GetAll", "Len"}]
       \cup [op : {"SetIdx"}, i : Idx, d : Datas]
       \cup {o \in [op : {"SetSlice"}, a : Idx, b : Idx, d : Datas] : o.a <= o.b}
       \cup [op : {"IAdd"}, d : Datas]
       \cup [op : {"Find", "RFind"}, p : Pats, i : Idx] \cup [op : {"Contains"}, p : Pats]

Next == \E o \in Ops : Do(o)
Spec == Init /\ [][Next]_vars
LenBound == Len(s) <= MaxLen

----------------------------------------------------------------------------
(* Properties (C33) *)
TypeOK == \A i \in 1..Len(s) : s[i] \in Alpha \cup {Pad}
ReadsDoNotWrite == [][ret'.t # "none" => s' = s]_vars
(* a write at [a, a+n) changes no byte outside it, except growth by padding *)
WritesAreLocal ==
  [][ \A i \in 1..Len(s) : (i <= Len(s') /\ s'[i] # s[i]) => ret'.t = "none" ]_vars
NeverShrinksOnIdxWrite == [][Len(s') >= Len(s) \/ ret'.t = "none"]_vars

Proj == [s |-> s]
AbsView == <<s, cached>>
Matches(j) == s = j.s
=============================================================================
