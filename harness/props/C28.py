"""C28 LocationDB consistency."""
from .. import core, sm


class H(object):
    pass


class Adapter(object):
    def new(self, acfg):
        from miasm.core.locationdb import LocationDB
        h = H()
        h.db = LocationDB()
        h.created = []
        h.last = None
        h.others = acfg["others"]
        return h

    def resolve(self, h, r):
        if r["by"] == "id":
            return h.created[r["v"] - 1] if r["v"] <= len(h.created) else None
        if r["by"] == "name":
            return h.db.get_name_location(r["v"])
        return h.db.get_offset_location(r["v"])

    def apply(self, h, o):
        from miasm.core.locationdb import LocationDB
        db = h.db
        op = o["op"]
        h.last = None
        before = set(db.loc_keys)
        try:
            if op == "Add":
                h.last = db.add_location(name=o["n"] or None, offset=None if o["o"] < 0 else o["o"],
                                         strict=o["strict"])
            elif op == "GetName":
                h.last = db.get_or_create_name_location(o["n"])
            elif op == "GetOffset":
                h.last = db.get_or_create_offset_location(o["o"])
            elif op == "Merge":
                other = LocationDB()
                for f in h.others[o["k"] - 1]:
                    names = sorted(f["names"])
                    lk = other.add_location(name=names[0] if names else None,
                                            offset=None if f["off"] < 0 else f["off"])
                    for n in names[1:]:
                        other.add_location_name(lk, n)
                db.merge(other)
            else:
                lk = self.resolve(h, o["r"])
                if lk is None:
                    raise core.MachineryError("spec generated an operation on an unresolvable reference")
                if op == "AddName":
                    db.add_location_name(lk, o["n"])
                elif op == "RemoveName":
                    db.remove_location_name(lk, o["n"])
                elif op == "SetOffset":
                    db.set_location_offset(lk, o["o"], force=o["force"])
                elif op == "UnsetOffset":
                    db.unset_location_offset(lk)
                elif op == "RemoveLoc":
                    db.remove_location(lk)
                else:
                    raise core.MachineryError(op)
        except KeyError:
            h.last = None
            return "KeyError"
        except ValueError:
            h.last = None
            return "ValueError"
        if op in ("Add", "GetName", "GetOffset"):
            new = set(db.loc_keys) - before
            if h.last in new:
                h.created.append(h.last)
            if h.last is None:
                return "returned-None"
        return "ok"

    def desc(self, db, lk):
        off = db.get_location_offset(lk)
        return {"names": set(db.get_location_names(lk)), "off": -1 if off is None else off}

    def project(self, h):
        db = h.db
        db.consistency_check()
        lks = list(db.loc_keys)
        d = {lk: self.desc(db, lk) for lk in lks}
        # cross-check the getters against each other (public observables only)
        for lk in lks:
            for n in d[lk]["names"]:
                assert db.get_name_location(n) == lk, "name table disagrees"
            if d[lk]["off"] >= 0:
                assert db.get_offset_location(d[lk]["off"]) == lk, "offset table disagrees"
        sameloc = set()
        nameoff = set()
        anonoff = set()
        nbare = 0
        for lk in lks:
            ns, off = d[lk]["names"], d[lk]["off"]
            for a in ns:
                for b in ns:
                    sameloc.add((a, b))
                if off >= 0:
                    nameoff.add((a, off))
            if not ns and off >= 0:
                anonoff.add(off)
            if not ns and off < 0:
                nbare += 1
        if h.last is not None and h.last in d:
            last = dict(d[h.last], valid=True)
        else:
            last = {"valid": False, "names": set(), "off": -1}
        created = [dict(d[lk], live=True) if lk in d else {"live": False, "names": set(), "off": -1}
                   for lk in h.created]
        return {"sameloc": sameloc, "nameoff": nameoff, "anonoff": anonoff, "nbare": nbare,
                "nlocs": len(lks), "last": last, "created": created}


def tla_others(others):
    def f(x):
        return "[names |-> %s, off |-> %d]" % (core.tla_set(core.tla_str(n) for n in sorted(x["names"])), x["off"])
    return "<<" + ", ".join(core.tla_set(f(x) for x in o) for o in others) + ">>"


def consts(names, offs, maxlocs, others):
    return {"Names": core.tla_set(core.tla_str(n) for n in names),
            "Offs": core.tla_set(str(o) for o in offs), "MaxLocs": str(maxlocs),
            "Others": tla_others(others)}


OTHERS = [
    [{"names": ["a"], "off": -1}],
    [{"names": ["a", "b"], "off": 1}],
    [{"names": [], "off": 2}, {"names": ["c"], "off": -1}],
    [{"names": ["b"], "off": 2}, {"names": ["a"], "off": 1}],
    [{"names": [], "off": -1}, {"names": ["b", "c"], "off": -1}],
]

# a merge with a conflicting foreign database is outside the property: validation of a
# recorded history stops (accepting) at such an event
ENDS = '(e.o.op = "Merge" /\\ ~MergeableAll(St, Others[e.o.k]))'
OTHERS0 = [[dict(f, off=f["off"] - 1 if f["off"] > 0 else f["off"]) for f in o] for o in OTHERS]
INV = ("TypeOK", "OffsetInjective", "NameInjective")
PROPS = ("RejectedUnchanged", "CreationCarries", "MergeImports")


def gen_op(rng, h, acfg):
    names, offs = acfg["names"], acfg["offs"]
    db = h.db
    lks = list(db.loc_keys)

    def ref():
        c = rng.random()
        if c < 0.4 and h.created:
            k = rng.randrange(len(h.created))
            if h.created[k] in db.loc_keys:
                return {"by": "id", "v": k + 1}
        known_n = [n for n in names if db.get_name_location(n) is not None]
        known_o = [o for o in offs if db.get_offset_location(o) is not None]
        if known_n and (c < 0.75 or not known_o):
            return {"by": "name", "v": rng.choice(known_n)}
        if known_o:
            return {"by": "off", "v": rng.choice(known_o)}
        return None
    for _ in range(20):
        r = rng.random()
        if r < 0.28:
            return {"op": "Add", "n": rng.choice(names + [""]), "o": rng.choice(offs + [-1]),
                    "strict": rng.random() < 0.4}
        if r < 0.34:
            return {"op": "GetName", "n": rng.choice(names)}
        if r < 0.40:
            return {"op": "GetOffset", "o": rng.choice(offs)}
        if r < 0.44 and h.nmerge < 3:
            h.nmerge += 1
            return {"op": "Merge", "k": rng.randrange(len(h.others)) + 1}
        if r < 0.50 and h.created:
            return {"op": "RemoveLoc", "r": {"by": "id", "v": rng.randrange(len(h.created)) + 1}}
        rf = ref()
        if rf is None:
            continue
        if r < 0.64:
            return {"op": "AddName", "r": rf, "n": rng.choice(names)}
        if r < 0.76:
            return {"op": "RemoveName", "r": rf, "n": rng.choice(names)}
        if r < 0.92:
            return {"op": "SetOffset", "r": rf, "o": rng.choice(offs), "force": rng.random() < 0.5}
        return {"op": "UnsetOffset", "r": rf}
    return {"op": "GetName", "n": rng.choice(names)}


class TraceAdapter(Adapter):
    def new(self, acfg):
        h = Adapter.new(self, acfg)
        h.nmerge = 0
        return h


def run(ctx):
    ad = Adapter()
    names = ["a", "b", "c"]
    if ctx.quick:
        c = consts(names, [0, 1], 3, OTHERS0[:3])
        sm.gen_replay(ctx, "LocationDB", c, 4, ad, acfg={"others": OTHERS0[:3]}, invariants=INV,
                      properties=PROPS, constraints=("LocBound",))
    else:
        c = consts(names, [0, 1, 2], 3, OTHERS0)
        sm.gen_replay(ctx, "LocationDB", c, 5, ad, acfg={"others": OTHERS0}, invariants=INV,
                      properties=PROPS, constraints=("LocBound",), timeout=3000)
    # code -> spec
    bn = ["n%d" % i for i in range(6)]
    bo = list(range(0, 6))
    rng = ctx.rng
    others = []
    for _ in range(6):
        pool_n = bn[:]
        pool_o = bo[:]
        rng.shuffle(pool_n)
        rng.shuffle(pool_o)
        o = []
        for _ in range(rng.randrange(1, 4)):
            k = rng.randrange(0, 3)
            o.append({"names": sorted(pool_n.pop() for _ in range(k)),
                      "off": pool_o.pop() if rng.random() < 0.6 else -1})
        others.append(o)
    tad = TraceAdapter()
    acfg = {"others": others, "names": bn, "offs": bo}
    ntr = 150 if ctx.quick else 1500
    traces = sm.record_traces(tad, acfg, gen_op, ntr, 30, rng)
    # a merge whose foreign database conflicts with the current content is outside the
    # property: such traces end at the event before it (the spec guards Merge)
    c2 = consts(bn, bo, 1000, others)
    sm.trace_validate(ctx, "LocationDB", c2, traces, classify=classify_trace, endsat=ENDS)

    def corrupt(ts):
        ev = ts[0][1]
        ev["st"]["nlocs"] += 1
        return "nlocs+1"
    sm.selftest_trace_binding(ctx, "LocationDB", c2, traces, corrupt, endsat=ENDS)
    ctx.assumptions += ["merge is only required to succeed when the foreign database does not conflict "
                        "(each foreign location maps to at most one local location, offsets compatible)",
                        "API preconditions (live LocKey arguments) respected"]
    return ("every (db state, op) over 3 names x 2-3 offsets x <=3 locations replayed on LocationDB with "
            "consistency_check and getter cross-checks after each call; random 30-step histories over 6 names/6 offsets "
            "with merges validated by TLC")


def classify_trace(ctx, detail):
    return False
