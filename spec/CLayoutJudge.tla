----------------------------- MODULE CLayoutJudge -----------------------------
(* Batch judge: every item is one set of C declarations with the layouts GCC and miasm computed, and member accesses *)
EXTENDS CLayout, Json, IOUtils
VARIABLES lo, hi
Items == JsonDeserialize(IOEnv.ITEMS_FILE)
Init == lo = 1 /\ hi = Len(Items)
Next == /\ lo < hi
        /\ LET mid == (lo + hi) \div 2 IN
           \/ (lo' = lo /\ hi' = mid)
           \/ (lo' = mid + 1 /\ hi' = hi)
Report == lo < hi \/ PrintT("V " \o ToString(lo) \o " " \o Verdict(Items[lo]))
=============================================================================
