"""C41 dynamic symbolic execution stays in step and yields valid new inputs: random x86-32 functions run under DSEPathConstraint on the
python jitter; a reported divergence is a violation, and every new input produced for an unexplored branch is given to the TLA+
reference execution of the program's IR (IRMachine.tla), which must take that branch."""
import re

from .. import core, overlay
from .. import exprjson as X
from .. import irjson as J
from .. import irequiv as Q
from .. import asmgen

REGS = ["EAX", "EBX", "ECX", "EDX", "ESI", "EDI"]
FLAGS = ["zf", "cf", "nf", "of", "pf", "af"]
BASE = 0x1000
DATA = 0x2000
RET = 0x1337bee0


def run(ctx):
    import logging
    overlay.activate(ctx, ("VmMngr", "JitCore_x86"))
    from miasm.analysis.machine import Machine
    from miasm.analysis.dse import DSEPathConstraint, DriftException
    from miasm.jitter.csts import PAGE_READ, PAGE_WRITE
    import miasm.expression.expression as m
    try:
        import z3
    except ImportError:
        raise core.MachineryError("z3 python bindings missing: run setup.sh")
    for name in ("dse", "jitter", "asmblock", "vmmngr", "jit function call"):
        logging.getLogger(name).setLevel(logging.CRITICAL)
    q = ctx.quick
    rng = ctx.rng
    machine = Machine("x86_32")
    items, meta = [], []
    selftest = []
    shapes = {}
    other = {}
    nsol = 0
    for n in range(90 if q else 900):
        gen = asmgen.AsmGen(rng, loops=rng.random() < 0.3, split_cells=True)
        src = gen.function(nseg=rng.randrange(2, 5))
        if re.search(r"PTR \[E(?!SP)", src):
            continue                      # a load through a random register pointer: unmapped in the emulator
        shape = n % 4
        if shape == 1:
            # a table lookup through an input-dependent pointer: the branch condition reads memory at a symbolic address
            mask = rng.choice([1, 3, 7])
            off = rng.choice([0, 0x10, 0x123])
            table = [X.mem_byte(DATA + off + i, 0) for i in range(mask + 2)]
            src = ("main:\n    AND EAX, 0x%X\n    MOVZX ECX, BYTE PTR [EAX+0x%X]\n    CMP ECX, 0x%X\n    JNZ T1\n    MOV EBX, 0x1\nT1:\n"
                   % (mask, DATA + off, 0)) + src.split("main:\n", 1)[1]
            table_cmp = True
        elif shape == 2:
            # a signed / unsigned byte division of an input-dependent dividend
            d = rng.choice([0x40, 0x7F, 0x11, 0x9, 0x20])
            k = rng.choice([8, 0xF8, 0, 1, 0x3FF // d, 0x200 // d, 0xFF])
            src = ("main:\n    AND EAX, 0x3FF\n    MOV ECX, 0x%X\n    %s CL\n    CMP AL, 0x%X\n    JZ T1\n    INC EBX\nT1:\n"
                   % (d, rng.choice(["IDIV", "IDIV", "DIV"]), k)) + src.split("main:\n", 1)[1]
            table_cmp = False
        else:
            table_cmp = False
        try:
            loc_db, lifter, cfg, head, make = asmgen.build(machine, src, base=BASE)
        except Exception:
            continue
        seed = rng.randrange(256)
        if table_cmp:
            # compare with: an entry of the table, the byte just after the reachable entries, or a value that is nowhere
            m_ = re.search(r"AND EAX, 0x(\w+)\n    MOVZX ECX, BYTE PTR \[EAX\+0x(\w+)\]", src)
            mask, tbase = int(m_.group(1), 16), int(m_.group(2), 16)
            entries = [X.mem_byte(tbase + i, seed) for i in range(mask + 1)]
            beyond = X.mem_byte(tbase + mask + 1, seed)
            nowhere = [v for v in range(256) if v not in entries]
            k = rng.choice([rng.choice(entries), beyond, rng.choice(nowhere), rng.choice(nowhere)])
            src = src.replace("CMP ECX, 0x0\n", "CMP ECX, 0x%X\n" % k, 1)
            try:
                loc_db, lifter, cfg, head, make = asmgen.build(machine, src, base=BASE)
            except Exception:
                continue
        inputs = {r: (rng.choice(X.boundary_values(32)) if rng.random() < 0.4 else rng.getrandbits(32)) for r in REGS}
        jit = machine.jitter(loc_db, "python")
        jit.init_stack()
        code = bytearray(0x1000)
        for b in cfg.blocks:
            for l in b.lines:
                code[l.offset - BASE:l.offset - BASE + l.l] = l.b
        jit.vm.add_memory_page(BASE, PAGE_READ | PAGE_WRITE, bytes(code), "code")
        jit.vm.add_memory_page(DATA, PAGE_READ | PAGE_WRITE, bytes(X.mem_byte(DATA + i, seed) for i in range(0x1000)), "data")
        # the stack holds the environment's memory pattern too (the reference reads the same bytes)
        for base, info in list(jit.vm.get_all_memory().items()):
            if base not in (BASE, DATA):
                jit.vm.set_mem(base, bytes(X.mem_byte(base + i, seed) for i in range(info["size"])))
        jit.cpu.ESP -= 0x200            # room above the stack pointer for the function's stack slots
        jit.push_uint32_t(RET)
        esp0 = jit.cpu.ESP
        jit.add_breakpoint(RET, lambda j: False)
        for r, v in inputs.items():
            setattr(jit.cpu, r, v)
        jit.cpu.EBP = 0x37000100
        for f in FLAGS:
            setattr(jit.cpu, f, 0)
        raised = ""
        dse = None
        try:
            with core.deadline(120):
                jit.init_run(BASE)
                dse = DSEPathConstraint(machine, loc_db, produce_solution=DSEPathConstraint.PRODUCE_SOLUTION_BRANCH_COV)
                dse.attach(jit)
                dse.update_state_from_concrete()
                regs = dse.lifter.arch.regs
                dse.update_state({getattr(regs, r): m.ExprId("in_" + r, 32) for r in REGS})
                jit.continue_run()
        except DriftException as ex:
            ctx.violation("divergence-reported", {"source": src, "inputs": {r: hex(v) for r, v in inputs.items()}, "memory_seed": seed,
                                                  "raised": str(ex)[:300]})
            continue
        except Exception as ex:
            k = type(ex).__name__ + ":" + str(ex)[:50]
            other[k] = other.get(k, 0) + 1
            continue
        if jit.pc != RET:
            other["run-did-not-return"] = other.get("run-did-not-return", 0) + 1
            continue
        if not dse.new_solutions:
            continue
        ircfg = make()
        prog = Q.graph_json(ircfg)
        sizes = Q.sizes_of(prog)
        for f in FLAGS:
            sizes[f] = 1
        sizes["IRDst"] = 32
        for r in REGS + ["ESP", "EBP"]:
            sizes[r] = 32
        # every IR block (also the intermediate ones of instructions lifted to several blocks) gets the address range of the
        # assembly block it comes from
        ranges = []
        seen_locs = set()
        for b in cfg.blocks:
            lo, hi = b.get_range()
            tmp = lifter.new_ircfg()
            lifter.add_asmblock_to_ircfg(b, tmp)
            for lk in tmp.blocks:
                if lk not in seen_locs:
                    seen_locs.add(lk)
                    ranges.append({"loc": J.loc_name(lk), "lo": lo, "hi": hi})
        for lk in ircfg.blocks:
            if lk not in seen_locs:
                ranges.append({"loc": J.loc_name(lk), "lo": 0, "hi": 0})
        sols = []
        first_env = None
        for key, model in dse.new_solutions.items():
            prev, dst = key
            try:
                def addr(e):
                    if e.is_loc():
                        return loc_db.get_location_offset(e.loc_key)
                    return int(e)
                pa, da = addr(prev), addr(dst)
            except Exception:
                continue
            dloc = loc_db.get_offset_location(da)
            if dloc is None or dloc not in ircfg.blocks:
                continue
            vals = dict(inputs)
            for r in REGS:
                v = model.eval(z3.BitVec("in_" + r, 32), model_completion=True)
                vals[r] = v.as_long()
            vals["ESP"] = esp0
            vals["EBP"] = 0x37000100
            for f in FLAGS:
                vals[f] = 0
            if first_env is None:
                v0 = dict(vals)
                v0.update(inputs)
                first_env = J.ir_env(sizes, v0, seed)
            sols.append({"env": J.ir_env(sizes, vals, seed), "dst": J.loc_name(dloc), "prev": pa,
                         "inputs": {r: hex(vals[r]) for r in REGS}})
        if not sols:
            continue
        nsol += len(sols)
        shapes[shape] = shapes.get(shape, 0) + len(sols)
        items.append({"t": "dse", "prog": prog, "start": J.loc_name(head), "w": 32, "budget": 60, "ranges": ranges,
                      "sols": [{k: v for k, v in s_.items() if k != "inputs"} for s_ in sols]})
        meta.append((src, {r: hex(v) for r, v in inputs.items()}, [(s_["dst"], hex(s_["prev"]), s_["inputs"]) for s_ in sols]))
        if len(selftest) < 5:
            # the first run did NOT take the branch: its own inputs in place of the solution must be rejected
            bad = dict(items[-1], sols=[dict(items[-1]["sols"][0], env=first_env)])
            selftest.append(bad)
    verdicts = X.judge(ctx, items, label="c41", module="IRJudge", chunk=100)
    counts = {}
    for v, mt in zip(verdicts, meta):
        key = v if v == "ok" else ":".join(v.split(":")[:1] + v.split(":")[2:])
        counts[key] = counts.get(key, 0) + 1
        if v != "ok":
            k = int(v.split(":")[1])
            ctx.violation("new-input-does-not-take-its-branch", {"source": mt[0], "first_inputs": mt[1], "solution": mt[2][k - 1], "verdict": v})
    if selftest:
        sv = X.judge(ctx, selftest, label="c41selftest", module="IRJudge", chunk=100)
        if any(v == "ok" for v in sv):
            raise core.MachineryError("binding self-test: the first run's own inputs were accepted as taking the unexplored branch: %r" % sv)
        ctx.notes["binding_selftest"] = "the inputs of the first run (which did not take the branch) in place of the solution: rejected %d/%d" % (len(sv), len(sv))
    ctx.traces += len(items)
    ctx.evaluations += nsol
    ctx.distinct = set(m_[0] for m_ in meta)
    for k in ([0, len(meta) // 2, len(meta) - 1] if meta else []):
        ctx.sample({"source": meta[k][0][:300], "first_inputs": meta[k][1], "solutions": meta[k][2][:2], "tlc_verdict": verdicts[k]})
    ctx.notes["verdicts"] = counts
    ctx.notes["new_inputs_judged"] = nsol
    ctx.notes["new_inputs_per_shape"] = {"random structure": shapes.get(0, 0) + shapes.get(3, 0), "table lookup through a symbolic pointer": shapes.get(1, 0),
                                         "byte division of a symbolic dividend": shapes.get(2, 0)}
    ctx.notes["runs_that_raised_something_else"] = other
    if not nsol:
        raise core.MachineryError("no solution was produced: nothing was judged")
    ctx.assumptions += ["x86-32 functions without calls (conditional structure, some counted loops, loads from cells that are never stored); the "
                        "six general registers are symbolized, memory is concrete; python jitter; branch-coverage strategy",
                        "the concrete execution a new input is given to is the TLA+ reference execution of the lifted IR (IRMachine.tla), "
                        "over the same memory content as the emulator's"]
    return ("each function runs once under DSEPathConstraint with random initial registers: a DriftException is a violation; every "
            "(branch, model) in new_solutions becomes an initial state for the TLA+ reference execution, which must enter the branch's "
            "destination block right after the block holding the branch")
