------------------------------- MODULE CLayout -------------------------------
(* C type layout of the x86-64 System V ABI (property C35), and of GCC's packed  *)
(* layout when every aggregate carries __attribute__((packed)).                   *)
(*   types:  [k |-> "base", size, align]  [k |-> "ptr"]                            *)
(*           [k |-> "array", elem, n]     [k |-> "struct" | "union", fields]       *)
(* A member access is a path from a pointer to an aggregate: a sequence of steps   *)
(* [f |-> field index] / [i |-> array index]; Offset / TypeAt give the byte offset  *)
(* and type it designates - what the expression miasm builds for it must read.     *)
EXTENDS Integers, Sequences, TLC

Max(a, b) == IF a > b THEN a ELSE b
RoundUp(x, a) == ((x + a - 1) \div a) * a

RECURSIVE AlignOf(_, _)
RECURSIVE SizeOf(_, _)
RECURSIVE EndAfter(_, _, _)
RECURSIVE MaxAlign(_, _, _)
RECURSIVE MaxSize(_, _, _)
(* largest member alignment / size of fields i.. *)
MaxAlign(fs, i, p) == IF i > Len(fs) THEN 1 ELSE Max(AlignOf(fs[i], p), MaxAlign(fs, i + 1, p))
MaxSize(fs, i, p) == IF i > Len(fs) THEN 0 ELSE Max(SizeOf(fs[i], p), MaxSize(fs, i + 1, p))
AlignOf(t, packed) ==
  CASE t.k = "base" -> t.align
    [] t.k = "ptr" -> 8
    [] t.k = "array" -> AlignOf(t.elem, packed)
    [] t.k \in {"struct", "union"} -> IF packed THEN 1 ELSE MaxAlign(t.fields, 1, packed)
(* where field i of a struct starts, given the end of field i - 1 *)
Place(t, cur, packed) == IF packed THEN cur ELSE RoundUp(cur, AlignOf(t, packed))
(* end offset after laying fields 1..i *)
EndAfter(fs, i, packed) == IF i = 0 THEN 0 ELSE Place(fs[i], EndAfter(fs, i - 1, packed), packed) + SizeOf(fs[i], packed)
FieldOffset(t, i, packed) == IF t.k = "union" THEN 0 ELSE Place(t.fields[i], EndAfter(t.fields, i - 1, packed), packed)
SizeOf(t, packed) ==
  CASE t.k = "base" -> t.size
    [] t.k = "ptr" -> 8
    [] t.k = "array" -> t.n * SizeOf(t.elem, packed)
    [] t.k = "struct" -> RoundUp(EndAfter(t.fields, Len(t.fields), packed), AlignOf(t, packed))
    [] t.k = "union" -> RoundUp(MaxSize(t.fields, 1, packed), AlignOf(t, packed))

RECURSIVE Offset(_, _, _)
RECURSIVE TypeAt(_, _)
Offset(t, path, packed) ==
  IF path = <<>> THEN 0
  ELSE LET s == Head(path) IN
       IF s.kind = "f" THEN FieldOffset(t, s.n, packed) + Offset(t.fields[s.n], Tail(path), packed)
       ELSE s.n * SizeOf(t.elem, packed) + Offset(t.elem, Tail(path), packed)
TypeAt(t, path) == IF path = <<>> THEN t
                   ELSE IF Head(path).kind = "f" THEN TypeAt(t.fields[Head(path).n], Tail(path)) ELSE TypeAt(t.elem, Tail(path))

(* ---- judging one observed layout: o = [size, align, offs, sizes] ------------------------------------------------------------ *)
Layout(t, packed) == [size |-> SizeOf(t, packed), align |-> AlignOf(t, packed),
                      offs |-> [i \in 1..Len(t.fields) |-> FieldOffset(t, i, packed)],
                      sizes |-> [i \in 1..Len(t.fields) |-> SizeOf(t.fields[i], packed)]]
Diff(l, o) == IF o.size # l.size THEN "size:" \o ToString(o.size) \o "/" \o ToString(l.size)
              ELSE IF o.align # l.align THEN "align:" \o ToString(o.align) \o "/" \o ToString(l.align)
              ELSE IF o.offs # l.offs THEN "offsets"
              ELSE IF o.sizes # l.sizes THEN "field-sizes"
              ELSE "ok"
RECURSIVE FirstBad(_, _)
(* the platform's compiler is checked first: a difference there is a defect of this specification, not of miasm *)
FirstBad(it, i) ==
  IF i > Len(it.types) THEN "ok"
  ELSE LET d == it.types[i]  l == Layout(d.t, it.packed) IN
       IF Diff(l, d.gcc) # "ok" THEN "model:" \o d.name \o ":" \o Diff(l, d.gcc)
       ELSE IF d.raised # "" THEN "bad:" \o d.name \o ":raised:" \o d.raised
       ELSE IF Diff(l, d.miasm) # "ok" THEN "bad:" \o d.name \o ":" \o Diff(l, d.miasm)
       ELSE FirstBad(it, i + 1)
(* a member access: a.path from a pointer to it.types[a.root]; miasm's expression must be a read of a.msize bytes at a.moff  *)
(* (or the address base + a.moff for an aggregate / array)                                                                  *)
(* recorded deviation (known finding): accesses that cross an array whose elements are arrays or aggregates (multi-dimensional *)
(* arrays, arrays of structs / unions) are outside what ExprCToExpr / ExprToAccessC translate reliably                        *)
RECURSIVE CrossesNestedArray(_, _)
CrossesNestedArray(t, path) ==
  IF path = <<>> THEN FALSE
  ELSE IF Head(path).kind = "f" THEN CrossesNestedArray(t.fields[Head(path).n], Tail(path))
  ELSE t.elem.k \in {"array", "struct", "union"} \/ CrossesNestedArray(t.elem, Tail(path))
(* ... or that pass a union another member of which contains such an array (the way back enumerates every member covering the offset) *)
RECURSIVE ContainsNested(_)
ContainsNested(t) == CASE t.k \in {"base", "ptr"} -> FALSE
                       [] t.k = "array" -> t.elem.k \in {"array", "struct", "union"} \/ ContainsNested(t.elem)
                       [] OTHER -> \E i \in 1..Len(t.fields) : ContainsNested(t.fields[i])
RECURSIVE UnionSibling(_, _)
UnionSibling(t, path) ==
  IF path = <<>> THEN FALSE
  ELSE IF Head(path).kind = "f"
       THEN (t.k = "union" /\ \E i \in 1..Len(t.fields) : i # Head(path).n /\ ContainsNested(t.fields[i]))
            \/ UnionSibling(t.fields[Head(path).n], Tail(path))
       ELSE UnionSibling(t.elem, Tail(path))
Nested(t, path) == CrossesNestedArray(t, path) \/ UnionSibling(t, path)
AccessDiff(it, a) ==
  LET t == it.types[a.root].t
      off == Offset(t, a.path, it.packed)  ty == TypeAt(t, a.path)  scalar == ty.k \in {"base", "ptr"} IN
  IF a.raised # "" THEN "raised:" \o a.raised
  ELSE IF a.moff # off THEN "offset:" \o ToString(a.moff) \o "/" \o ToString(off)
  ELSE IF a.msize # (IF scalar THEN SizeOf(ty, it.packed) ELSE 0) THEN "size"
  (* an address (aggregate or array member) has several C readings: the way back is required for scalar members only *)
  ELSE IF scalar /\ ~a.back THEN "no-equivalent-access-of-the-same-type-comes-back"
  ELSE "ok"
RECURSIVE FirstBadAccess(_, _, _)
FirstBadAccess(it, i, nested) ==
  IF i > Len(it.accesses) THEN "ok"
  ELSE LET a == it.accesses[i] IN
       IF Nested(it.types[a.root].t, a.path) = nested /\ AccessDiff(it, a) # "ok"
       THEN (IF nested THEN "nested:" ELSE "bad:") \o "access:" \o a.c \o ":" \o AccessDiff(it, a)
       ELSE FirstBadAccess(it, i + 1, nested)
LVerdict(it) == IF FirstBad(it, 1) # "ok" THEN FirstBad(it, 1)
               ELSE IF FirstBadAccess(it, 1, FALSE) # "ok" THEN FirstBadAccess(it, 1, FALSE)
               ELSE FirstBadAccess(it, 1, TRUE)
=============================================================================
