"""Shared driver for C01 (simplification preserves meaning, never raises) and C02 (fixed point,
termination): records simplifier calls and individual rewrite steps, TLC judges them."""
import signal

from . import core
from . import exprjson as X
from . import exprgen


class Budget(Exception):
    pass


def simplifiers():
    from miasm.expression import simplifications as S
    return [("expr_simp", S.expr_simp), ("high_to_explicit", S.expr_simp_high_to_explicit),
            ("explicit", S.expr_simp_explicit)]


class Recorder(object):
    """wraps every pass of a simplifier (from the harness process; nothing in /repo changes)"""

    def __init__(self, limit=200000):
        self.steps = {}        # (before, after) -> rule name
        self.rule_counts = {}
        self.calls = 0
        self.limit = limit
        self.installed = []

    def install(self, simp):
        for cls, funcs in list(simp.expr_simp_cb.items()):
            orig = list(funcs)
            simp.expr_simp_cb[cls] = [self.wrap(f) for f in orig]
            self.installed.append((simp, cls, orig))

    def uninstall(self):
        for simp, cls, orig in self.installed:
            simp.expr_simp_cb[cls] = orig
        self.installed = []

    def wrap(self, f):
        name = f.__name__

        def wrapped(e_s, expr):
            self.calls += 1
            if self.calls > self.limit:
                raise Budget()
            out = f(e_s, expr)
            if out is not expr and out != expr:
                self.rule_counts[name] = self.rule_counts.get(name, 0) + 1
                if len(self.steps) < 400000:
                    self.steps.setdefault((expr, out), name)
            return out
        wrapped.__name__ = name
        return wrapped


def _alarm(signum, frame):
    raise Budget()


def call_simp(simp, e, rec, seconds=20):
    """returns (status, result, idem)"""
    rec.calls = 0
    signal.signal(signal.SIGALRM, _alarm)
    signal.alarm(seconds)
    try:
        r = simp(e)
        rec.calls = 0
        r2 = simp(r)
        return "ok", r, (r2 is r) or (r2 == r)
    except Budget:
        return "budget-exhausted", None, False
    except RecursionError:
        return "raised:RecursionError", None, False
    except Exception as ex:
        return "raised:" + type(ex).__name__, None, False
    finally:
        signal.alarm(0)


def corpus(ctx, n_random, n_shaped, enum_widths, small_cap=None):
    rng = ctx.rng
    exprs = []
    g = exprgen.Gen(rng, div_max_w=64 if ctx.quick else 128)
    for _ in range(n_random):
        w = rng.choice(exprgen.WIDTHS + [rng.choice(exprgen.ODD)])
        exprs.append(g.expr(w, rng.choice([1, 2, 2, 3, 3, 4])))
    g64 = exprgen.Gen(rng, ptr=64)
    for _ in range(n_shaped):
        exprs.append((g if rng.random() < 0.7 else g64).shaped())
    small = exprgen.enumerate_small(enum_widths)
    if small_cap and len(small) > small_cap:
        # quick tier: every depth-1 form of width 3 is kept (the tail), the rest is a seeded sample
        keep = small[-800:]
        small = rng.sample(small[:-800], small_cap - 800) + keep
    cc = exprgen.enumerate_cc(2)
    if ctx.quick:
        # quick tier: every one- and two-flag form, a seeded sample of the three-flag forms
        cc = [e for e in cc if len(e.args) <= 2] + rng.sample([e for e in cc if len(e.args) == 3], 1200)
    else:
        cc += exprgen.enumerate_cc(8)[::7]
    small = cc + exprgen.enumerate_ext_cmp() + small
    return exprs, small


def envs_for(e, rng, exhaustive_bits=8, nsample=10):
    sizes = X.ids_of(e)
    total = sum(sizes.values())
    if total <= exhaustive_bits:
        envs = X.all_envs(sizes, seeds=(0,) if total > 4 else (0, 77))
    else:
        envs = X.make_envs(sizes, rng, nsample)
    return sizes, envs


def run(ctx, which):
    """which: 'C01' (meaning, no raise) or 'C02' (fixed point, termination)"""
    q = ctx.quick
    exprs, small = corpus(ctx, 250 if q else 2500, 350 if q else 2500, (1, 2, 3), small_cap=7000 if q else 30000)
    rec = Recorder()
    items, meta = [], []
    sims = simplifiers()
    for name, simp in sims:
        rec.install(simp)
    try:
        for idx, e in enumerate(small + exprs):
            exhaustive = idx < len(small)
            try:
                ja = X.to_json(e)
            except ValueError:
                continue
            sizes, envs = envs_for(e, ctx.rng, exhaustive_bits=8 if exhaustive else 6)
            jenvs = [X.env_json(v, sizes) for v in envs]
            for name, simp in sims:
                status, r, idem = call_simp(simp, e, rec)
                if status == "ok":
                    try:
                        jb = X.to_json(r)
                    except ValueError:
                        continue
                else:
                    jb = ja
                items.append({"t": "simp", "a": ja, "b": jb, "envs": jenvs, "status": status, "idem": bool(idem)})
                meta.append(("call", name, str(e), str(r), exhaustive))
    finally:
        rec.uninstall()
    if which == "C01":
        # every individual rewrite step, judged separately so that a rejection names the rule
        steps = list(rec.steps.items())
        ctx.rng.shuffle(steps)
        for (before, after), rule in steps[:(4000 if q else 20000)]:
            try:
                ja, jb = X.to_json(before), X.to_json(after)
            except ValueError:
                continue
            sizes = X.ids_of(before)
            sizes.update(X.ids_of(after))
            total = sum(sizes.values())
            envs = X.all_envs(sizes) if total <= 6 else X.make_envs(sizes, ctx.rng, 8)
            items.append({"t": "eq", "a": ja, "b": jb, "envs": [X.env_json(v, sizes) for v in envs]})
            meta.append(("step", rule, str(before), str(after), False))
    verdicts = X.judge(ctx, items, label=which.lower(), chunk=3000)
    counts = {}
    for v, m in zip(verdicts, meta):
        key = v.split(":")[0]
        counts[key] = counts.get(key, 0) + 1
        meaning = key in ("bad", "width", "illsized") or v.startswith("status:raised")
        # unbounded recursion is how a rule cycle shows up in a recursive rewriter: a termination failure
        fixed = key == "notfixed" or v in ("status:budget-exhausted", "status:raised:RecursionError")
        if (which == "C01" and meaning) or (which == "C02" and fixed):
            ctx.violation("simplification-" + key, {"kind": m[0], "simplifier_or_rule": m[1], "before": m[2],
                                                    "after": m[3], "verdict": v})
    ctx.traces += len(items)
    ctx.evaluations += len(items)
    ctx.distinct = set((m[0], m[1], m[2]) for m in meta)
    for k in (0, len(meta) // 2, len(meta) - 1):
        ctx.sample({"kind": meta[k][0], "by": meta[k][1], "before": meta[k][2][:200], "after": meta[k][3][:200],
                    "tlc_verdict": verdicts[k]})
    ctx.notes["verdict_counts"] = counts
    ctx.notes["rules_fired"] = dict(sorted(rec.rule_counts.items()))
    ctx.notes["distinct_rules_fired"] = len(rec.rule_counts)
    ctx.notes["enumerated_small_expressions"] = len(small)
    ctx.notes["random_and_shaped_expressions"] = len(exprs)
    ctx.assumptions += ["Expr.tla/BV.tla is the reference meaning; memory is the fixed address function of Expr.tla",
                        "undefined (division by zero) originals impose nothing",
                        "termination is decided per input with a 200000-rule-application / 20 s budget (not proved)"]
    return ("expressions: every one-operator tree (and nested for width<=2) over {a,b,0,1,-1} at small widths with ALL "
            "valuations, plus seeded random trees (widths 1..128) and rule-shaped forms with boundary+random valuations; "
            "each shipped simplifier is called, its result and every individual rewrite step is judged by TLC")
