------------------------------ MODULE LocationDB ------------------------------
(* miasm.core.locationdb.LocationDB (property C28).                              *)
(* Locations are natural-number identities allocated by a counter (as the code   *)
(* does); operations address a location through a reference                      *)
(*    [by |-> "id", v |-> k]    the k-th location created by an Add/GetOrCreate   *)
(*    [by |-> "name", v |-> n]  the location owning name n                        *)
(*    [by |-> "off", v |-> o]   the location owning offset o                      *)
(* so that the observable projection never mentions identities (merge numbers    *)
(* fresh locations in an arbitrary order).  "" = no name, -1 = no offset.         *)
EXTENDS Integers, Sequences, FiniteSets, TLC

CONSTANTS Names, Offs, MaxLocs,
          Others       \* sequence of foreign databases: each a set of [names, off]

VARIABLES locs, off, names, next, created, ret, last
vars == <<locs, off, names, next, created, ret, last>>

NoName == ""
NoOff == -1

Init == /\ locs = {} /\ off = <<>> /\ names = <<>> /\ next = 1
        /\ created = <<>> /\ ret = "none" /\ last = 0

NameLoc(n) == IF \E l \in locs : n \in names[l] THEN CHOOSE l \in locs : n \in names[l] ELSE 0
OffLoc(o) == IF o # NoOff /\ \E l \in locs : off[l] = o THEN CHOOSE l \in locs : off[l] = o ELSE 0
Resolve(r) == CASE r.by = "id" -> IF r.v <= Len(created) THEN created[r.v] ELSE 0
                [] r.by = "name" -> NameLoc(r.v)
                [] r.by = "off" -> OffLoc(r.v)

Unchanged(e) == /\ UNCHANGED <<locs, off, names, next, created>> /\ ret' = e /\ last' = 0

Fresh(n, o) ==
  /\ locs' = locs \cup {next}
  /\ off' = [l \in locs \cup {next} |-> IF l = next THEN o ELSE off[l]]
  /\ names' = [l \in locs \cup {next} |-> IF l = next THEN {n} \ {NoName} ELSE names[l]]
  /\ created' = Append(created, next) /\ last' = next /\ next' = next + 1 /\ ret' = "ok"

(* set_location_offset semantics, used directly and by non-strict creation *)
SetOffsetTo(l, o, force, retloc) ==
  IF OffLoc(o) \notin {0, l} THEN Unchanged("KeyError")
  ELSE IF off[l] \notin {NoOff, o} /\ ~force THEN Unchanged("ValueError")
  ELSE /\ off' = [off EXCEPT ![l] = o] /\ ret' = "ok" /\ last' = retloc
       /\ UNCHANGED <<locs, names, next, created>>

AddLocation(n, o, strict) ==
  LET nl == IF n = NoName THEN 0 ELSE NameLoc(n)
      ol == OffLoc(o) IN
  IF strict
  THEN IF nl # 0 \/ ol # 0 THEN Unchanged("ValueError") ELSE Fresh(n, o)
  ELSE IF nl # 0
       THEN IF o # NoOff THEN SetOffsetTo(nl, o, FALSE, nl)
            ELSE /\ UNCHANGED <<locs, off, names, next, created>> /\ ret' = "ok" /\ last' = nl
       ELSE IF ol # 0
       THEN \* the location owning the offset gets the new name and is returned
            /\ names' = [names EXCEPT ![ol] = @ \cup ({n} \ {NoName})]
            /\ UNCHANGED <<locs, off, next, created>> /\ ret' = "ok" /\ last' = ol
       ELSE Fresh(n, o)

AddName(r, n) ==
  LET l == Resolve(r) IN
  /\ l \in locs
  /\ IF NameLoc(n) \notin {0, l} THEN Unchanged("KeyError")
     ELSE /\ names' = [names EXCEPT ![l] = @ \cup {n}] /\ ret' = "ok" /\ last' = 0
          /\ UNCHANGED <<locs, off, next, created>>

RemoveName(r, n) ==
  LET l == Resolve(r) IN
  /\ l \in locs
  /\ IF NameLoc(n) # l THEN Unchanged("KeyError")
     ELSE /\ names' = [names EXCEPT ![l] = @ \ {n}] /\ ret' = "ok" /\ last' = 0
          /\ UNCHANGED <<locs, off, next, created>>

SetOffset(r, o, force) == LET l == Resolve(r) IN l \in locs /\ SetOffsetTo(l, o, force, 0)

UnsetOffset(r) ==
  LET l == Resolve(r) IN
  /\ l \in locs
  /\ IF off[l] = NoOff THEN Unchanged("ValueError")
     ELSE /\ off' = [off EXCEPT ![l] = NoOff] /\ ret' = "ok" /\ last' = 0
          /\ UNCHANGED <<locs, names, next, created>>

RemoveLocation(r) ==     \* r.by = "id": a stale identity is answered with KeyError
  LET l == Resolve(r) IN
  /\ l # 0
  /\ IF l \notin locs THEN Unchanged("KeyError")
     ELSE /\ locs' = locs \ {l}
          /\ off' = [x \in locs \ {l} |-> off[x]] /\ names' = [x \in locs \ {l} |-> names[x]]
          /\ ret' = "ok" /\ last' = 0 /\ UNCHANGED <<next, created>>

GetOrCreateName(n) ==
  IF NameLoc(n) # 0
  THEN /\ UNCHANGED <<locs, off, names, next, created>> /\ ret' = "ok" /\ last' = NameLoc(n)
  ELSE Fresh(n, NoOff)
GetOrCreateOffset(o) ==
  IF OffLoc(o) # 0
  THEN /\ UNCHANGED <<locs, off, names, next, created>> /\ ret' = "ok" /\ last' = OffLoc(o)
  ELSE Fresh(NoName, o)

(* ---- merge: import every association of a foreign database ------------------ *)
St == [locs |-> locs, off |-> off, names |-> names, next |-> next]
Targets(st, f) == {l \in st.locs : st.names[l] \cap f.names # {} \/ (f.off # NoOff /\ st.off[l] = f.off)}
MergeableOne(st, f) ==
  /\ Cardinality(Targets(st, f)) <= 1
  /\ \A l \in Targets(st, f) : f.off = NoOff \/ st.off[l] \in {NoOff, f.off}
MergeOne(st, f) ==
  IF Targets(st, f) = {}
  THEN [locs |-> st.locs \cup {st.next},
        off |-> [l \in st.locs \cup {st.next} |-> IF l = st.next THEN f.off ELSE st.off[l]],
        names |-> [l \in st.locs \cup {st.next} |-> IF l = st.next THEN f.names ELSE st.names[l]],
        next |-> st.next + 1]
  ELSE LET t == CHOOSE l \in Targets(st, f) : TRUE IN
       [st EXCEPT !.names[t] = @ \cup f.names,
                  !.off[t] = IF f.off = NoOff THEN @ ELSE f.off]
RECURSIVE MergeAll(_, _)
MergeAll(st, S) == IF S = {} THEN st
                   ELSE LET f == CHOOSE x \in S : TRUE IN MergeAll(MergeOne(st, f), S \ {f})
RECURSIVE MergeableAll(_, _)
MergeableAll(st, S) == IF S = {} THEN TRUE
                       ELSE LET f == CHOOSE x \in S : TRUE IN
                            MergeableOne(st, f) /\ MergeableAll(MergeOne(st, f), S \ {f})
Merge(k) ==
  /\ MergeableAll(St, Others[k])       \* conflicting merges are outside the property
  /\ LET r == MergeAll(St, Others[k]) IN
       /\ locs' = r.locs /\ off' = r.off /\ names' = r.names /\ next' = r.next
  /\ UNCHANGED created /\ ret' = "ok" /\ last' = 0

Do(o) == CASE o.op = "Add"        -> AddLocation(o.n, o.o, o.strict)
           [] o.op = "AddName"    -> AddName(o.r, o.n)
           [] o.op = "RemoveName" -> RemoveName(o.r, o.n)
           [] o.op = "SetOffset"  -> SetOffset(o.r, o.o, o.force)
           [] o.op = "UnsetOffset" -> UnsetOffset(o.r)
           [] o.op = "RemoveLoc"  -> RemoveLocation(o.r)
           [] o.op = "GetName"    -> GetOrCreateName(o.n)
           [] o.op = "GetOffset"  -> GetOrCreateOffset(o.o)
           [] o.op = "Merge"      -> Merge(o.k)

Refs == [by : {"id"}, v : 1..MaxLocs] \cup [by : {"name"}, v : Names] \cup [by : {"off"}, v : Offs]
IdRefs == [by : {"id"}, v : 1..MaxLocs]
Ops == [op : {"Add"}, n : Names \cup {NoName}, o : Offs \cup {NoOff}, strict : BOOLEAN]
       \cup [op : {"AddName", "RemoveName"}, r : Refs, n : Names]
       \cup [op : {"SetOffset"}, r : Refs, o : Offs, force : BOOLEAN]
       \cup [op : {"UnsetOffset"}, r : Refs]
       \cup [op : {"RemoveLoc"}, r : IdRefs]
       \cup [op : {"GetName"}, n : Names] \cup [op : {"GetOffset"}, o : Offs]
       \cup [op : {"Merge"}, k : 1..Len(Others)]

Next == \E o \in Ops : Do(o)
Spec == Init /\ [][Next]_vars
LocBound == next <= MaxLocs + 1

----------------------------------------------------------------------------
(* Properties (C28) *)
TypeOK == /\ DOMAIN off = locs /\ DOMAIN names = locs
          /\ \A l \in locs : off[l] \in Offs \cup {NoOff} /\ names[l] \subseteq Names
OffsetInjective == \A a, b \in locs : (off[a] # NoOff /\ off[a] = off[b]) => a = b
NameInjective == \A a, b \in locs : names[a] \cap names[b] # {} => a = b
RejectedUnchanged ==
  [][ret' \in {"KeyError", "ValueError"} => UNCHANGED <<locs, off, names>>]_vars
(* non-strict creation returns the location carrying the requested name and offset *)
NonStrictReturns(n, o) ==
  (ret' = "ok" /\ last' # 0) =>
     /\ last' \in locs'
     /\ (n # NoName => n \in names'[last'])
     /\ (o # NoOff => off'[last'] = o)
CreationCarries ==
  [][\A n \in Names \cup {NoName}, o \in Offs \cup {NoOff} :
        AddLocation(n, o, FALSE) => NonStrictReturns(n, o)]_vars
MergeImports ==
  [][\A k \in 1..Len(Others) : Merge(k) =>
        \A f \in Others[k] : \E l \in locs' :
            f.names \subseteq names'[l] /\ (f.off # NoOff => off'[l] = f.off)]_vars

----------------------------------------------------------------------------
(* identity-free observable projection *)
SameLoc == {<<a, b>> \in Names \X Names : \E l \in locs : a \in names[l] /\ b \in names[l]}
NameOff == {<<a, o>> \in Names \X Offs : \E l \in locs : a \in names[l] /\ off[l] = o}
AnonOff == {o \in Offs : \E l \in locs : names[l] = {} /\ off[l] = o}
NBare == Cardinality({l \in locs : names[l] = {} /\ off[l] = NoOff})
LastD == IF last = 0 \/ last \notin locs THEN [valid |-> FALSE, names |-> {}, off |-> NoOff]
         ELSE [valid |-> TRUE, names |-> names[last], off |-> off[last]]
CreatedD == [i \in 1..Len(created) |->
               IF created[i] \in locs THEN [live |-> TRUE, names |-> names[created[i]], off |-> off[created[i]]]
               ELSE [live |-> FALSE, names |-> {}, off |-> NoOff]]
Proj == [sameloc |-> SameLoc, nameoff |-> NameOff, anonoff |-> AnonOff, nbare |-> NBare,
         nlocs |-> Cardinality(locs), last |-> LastD, created |-> CreatedD]
AbsView == <<locs, off, names, next, created>>
ToSet(q) == {q[i] : i \in 1..Len(q)}
Matches(j) == /\ SameLoc = ToSet(j.sameloc) /\ NameOff = ToSet(j.nameoff) /\ AnonOff = ToSet(j.anonoff)
              /\ NBare = j.nbare /\ Cardinality(locs) = j.nlocs
              /\ LastD.valid = j.last.valid /\ LastD.names = ToSet(j.last.names) /\ LastD.off = j.last.off
              /\ Len(created) = Len(j.created)
              /\ \A i \in 1..Len(created) :
                    /\ CreatedD[i].live = j.created[i].live /\ CreatedD[i].off = j.created[i].off
                    /\ CreatedD[i].names = ToSet(j.created[i].names)
=============================================================================
