"""C45 import stub addresses: distinct, stable, invertible."""
from .. import core, sm


class H(object):
    pass


def canon_name(n):
    """documented canonicalisation, written independently of the code"""
    n = n.lower().strip(" ")
    return n if "." in n else n + ".dll"


def fid(f):
    return int(f[1:]) if f.startswith("#") else f


class Adapter(object):
    def new(self, acfg):
        import logging
        logging.getLogger("loader_common").setLevel(logging.ERROR)
        from miasm.jitter.loader.utils import libimp
        h = H()
        h.li = libimp()
        h.bases = {}      # canonical name -> base returned by the code
        h.stubs = {}      # (canonical, func) -> address returned by the code
        return h

    def apply(self, h, o):
        op = o["op"]
        if op == "GetBase":
            ad = h.li.lib_get_add_base(o["n"])
            c = canon_name(o["n"])
            h.bases.setdefault(c, ad)
            return ad
        if op == "GetFunc":
            c = canon_name(o["n"])
            ad = h.li.lib_get_add_func(h.bases[c], fid(o["f"]))
            h.stubs.setdefault((c, o["f"]), ad)
            if h.stubs[(c, o["f"])] != ad:
                return -2          # unstable answer
            return ad
        if op == "BadBase":
            try:
                h.li.lib_get_add_func(o["a"], "x")
            except ValueError:
                return -1
            return -3
        raise core.MachineryError(op)

    def project(self, h):
        from miasm.jitter.loader.utils import canon_libname_libfunc
        li = h.li
        stubs = set()
        # the observable maps of the object itself, cross-checked against what calls returned
        for name, libad in li.name2off.items():
            for f, ad in li.lib_imp2ad[libad].items():
                fs = "#%d" % f if isinstance(f, int) else f
                stubs.add((name, fs, ad))
                # each stub address maps back to the library and function it was assigned to
                if li.fad2info.get(ad) != (libad, f):
                    stubs.add(("fad2info-mismatch", fs, ad))
                if li.fad2cname.get(ad) != canon_libname_libfunc(name, f):
                    stubs.add(("fad2cname-mismatch", fs, ad))
        for (c, f), ad in h.stubs.items():
            if (c, f, ad) not in stubs:
                stubs.add(("returned-differs", f, ad))
        return {"stubs": stubs, "bases": set(li.name2off.items())}


def consts(libnames, funcs, base=0x71111000, ls=0x1000, fs=0x10, first=4):
    canon = "[n \\in LibNames |-> CASE " + " [] ".join(
        "n = %s -> %s" % (core.tla_str(n), core.tla_str(canon_name(n))) for n in libnames) + "]"
    return {"LibNames": core.tla_set(core.tla_str(n) for n in libnames), "Canon": canon,
            "Funcs": core.tla_set(core.tla_str(f) for f in funcs),
            "Base": str(base), "LibStride": str(ls), "FuncStride": str(fs), "First": str(first)}


INV = ("Injective", "BasesDistinct")
PROPS = ("Stable", "SameAnswer")


def gen_op(rng, h, acfg):
    libs, funcs = acfg["libs"], acfg["funcs"]
    known = [n for n in libs if canon_name(n) in h.bases]
    r = rng.random()
    if not known or r < 0.02:
        return {"op": "GetBase", "n": rng.choice(libs)}
    if r < 0.03:
        return {"op": "BadBase", "a": 0x71111001}
    n = known[0] if rng.random() < 0.8 else rng.choice(known)   # fill one library past its area
    return {"op": "GetFunc", "n": n, "f": rng.choice(funcs)}


def run(ctx):
    ad = Adapter()
    # names chosen so that canonical function names (stem + "_" + function) can coincide for
    # distinct (library, function) pairs, and so that several spellings denote one library
    libs = ["foo.dll", "FOO", "foo_bar.dll", "foo.drv"]
    funcs = ["bar_baz", "baz", "#1", "f"]
    depth = 5 if ctx.quick else 7
    sm.gen_replay(ctx, "LibImp", consts(libs, funcs), depth, ad, invariants=INV, properties=PROPS)
    # design-level: scaled-down strides so that TLC itself crosses the end of a library area
    # (4 functions per area) -- the situation that needs 257 functions in the real constants
    mc = consts(["a", "b"], ["f%d" % i for i in range(5)], base=100, ls=8, fs=2, first=1)
    text = "---- MODULE LibImp_mc ----\nEXTENDS LibImp\n%s\n====\n" % sm.const_defs(mc)
    cfg = sm.cfg_text("Init", "Next", mc, invariants=INV, properties=PROPS, constraints=("StubBound",))
    res = core.run_tlc(ctx, "LibImp_mc", text, cfg, workers=core.NCPU, timeout=1500)
    ctx.add_tlc(res)
    if res.error_kind:
        ctx.violation("spec-" + res.error_kind, {"module": "LibImp", "name": res.error_name,
                                                 "tlc": res.errtext[:3000]})
    ctx.notes.setdefault("runs", []).append({"run": "LibImp_mc (scaled strides, area overflow crossed)",
                                             "tlc_states": res.distinct, "tlc_transitions": res.generated})
    # code -> spec: long histories that push one library past 256 functions
    bl = ["kernel32.dll", "USER32", "libc.so.6", "x"]
    bf = ["fn%d" % i for i in range(300)] + ["#%d" % i for i in range(1, 40)]
    ntr = 4 if ctx.quick else 24
    traces = sm.record_traces(ad, {"libs": bl, "funcs": bf}, gen_op, ntr, 900, ctx.rng)
    # scripted histories: one library is filled past one area, a second library is created and used,
    # then the first one is filled past further areas (needs > 512 functions)
    for first, second in ((bl[0], bl[1]), (bl[3], bl[2])):
        script = [{"op": "GetBase", "n": first}]
        script += [{"op": "GetFunc", "n": first, "f": "fn%d" % i} for i in range(300)]
        script += [{"op": "GetBase", "n": second}, {"op": "GetFunc", "n": second, "f": "fn0"}]
        script += [{"op": "GetFunc", "n": first, "f": "g%d" % i} for i in range(300)]
        script += [{"op": "GetFunc", "n": second, "f": "fn1"}, {"op": "GetFunc", "n": first, "f": "fn7"}]
        it = iter(script)
        traces += sm.record_traces(ad, {"libs": bl, "funcs": bf}, lambda rng, h, acfg: next(it, None), 1,
                                   len(script), ctx.rng)
    bf = bf + ["g%d" % i for i in range(300)]
    c = consts(bl, bf)
    for t in traces:
        for i, e in enumerate(t):
            st = e["st"]
            full = (i == len(t) - 1) or (i % 100 == 0)
            e["st"] = {"full": full, "nstubs": len(st["stubs"]), "nbases": len(st["bases"]),
                       "stubs": st["stubs"] if full else [], "bases": st["bases"] if full else []}
    sm.trace_validate(ctx, "LibImp", c, traces, timeout=2400)
    nover = sum(1 for t in traces if t[-1]["st"]["nstubs"] > 256)
    ctx.notes["traces_past_256_functions"] = nover

    def corrupt(ts):
        ev = [e for e in ts[0] if e["st"]["full"] and e["st"]["stubs"]][-1]
        st = sorted(ev["st"]["stubs"])
        st[0] = [st[0][0], st[0][1], st[0][2] + 16]
        ev["st"]["stubs"] = st
        return "stub address shifted"
    sm.selftest_trace_binding(ctx, "LibImp", c, [t[:101] for t in traces], corrupt)
    return ("every history of depth<=%d over 4 library names x 4 functions replayed on libimp (addresses, inverse maps); "
            "TLC checks injectivity/stability on scaled-down strides where areas overflow; 900-step histories "
            "that give one library >256 functions validated by TLC" % depth)
