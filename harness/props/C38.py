"""C38 data-flow analyses (reaching definitions, def-use links, liveness) match their path-based definitions."""
from .. import core
from .. import exprjson as X
from .. import irjson as J
from .. import asmgen


def synthetic(rng, lifter, loc_db):
    """small IR graphs over three variables: arbitrary edges (loops, exit-less loops, unreachable blocks), parallel assign blocks
    with cross dependencies"""
    import miasm.expression.expression as m
    from miasm.ir.ir import IRBlock, AssignBlock
    V = [m.ExprId(n, 32) for n in ("A", "B", "C")]
    nb = rng.randrange(1, 7)
    locs = [loc_db.add_location() for _ in range(nb)]
    ircfg = lifter.new_ircfg()
    for i in range(nb):
        abs_ = []
        for _ in range(rng.randrange(1, 4)):
            d = {}
            k = rng.random()
            if k < 0.2:
                a, b = rng.sample(V, 2)
                d[a], d[b] = b, a                                   # swap
            elif k < 0.35:
                a, b, c = rng.sample(V, 3)
                d[a], d[c] = b, a                                   # {A = B, C = A}
            else:
                for _ in range(rng.randrange(1, 3)):
                    dst = rng.choice(V) if rng.random() < 0.85 else m.ExprMem(rng.choice(V) + m.ExprInt(4, 32), 32)
                    src = rng.choice([rng.choice(V), m.ExprInt(rng.randrange(4), 32), rng.choice(V) + rng.choice(V),
                                      m.ExprMem(rng.choice(V), 32), rng.choice(V) + m.ExprInt(1, 32)])
                    d[dst] = src
            abs_.append(d)
        # successors: none (leaf), one, or two
        k = rng.random()
        if k < 0.2 or nb == 1 and k < 0.6:
            dst = m.ExprMem(m.ExprId("SP", 32), 32)          # a return: the destination is a value, the block is a leaf
        elif k < 0.65:
            dst = m.ExprLoc(rng.choice(locs), 32)
        else:
            dst = m.ExprCond(rng.choice(V), m.ExprLoc(rng.choice(locs), 32), m.ExprLoc(rng.choice(locs), 32))
        last = dict(abs_[-1])
        last[lifter.IRDst] = dst
        abs_[-1] = last
        ircfg.add_irblock(IRBlock(loc_db, locs[i], [AssignBlock(a) for a in abs_]))
    return ircfg


def facts(ircfg, lifter):
    from miasm.analysis.data_flow import ReachingDefinitions, DiGraphDefUse, DiGraphLivenessIRA
    blocks = list(ircfg.blocks.values())
    bj = [J.block_json(b) for b in blocks]
    present = set(ircfg.blocks)
    edges = [{"s": J.loc_name(a), "d": J.loc_name(b)} for a, b in ircfg.edges() if a in present and b in present]
    rd = ReachingDefinitions(ircfg)
    rdl = []
    for (lk, idx), st in rd.items():
        for lval, defs in st.items():
            if lval.is_id() and defs:
                rdl.append({"b": J.loc_name(lk), "i": idx, "v": lval.name, "defs": [[J.loc_name(d[0]), d[1]] for d in defs]})
    du = DiGraphDefUse(rd, deref_mem=True)
    pos = {}
    for b in blocks:
        for i, ab in enumerate(b):
            for k, dst in enumerate(ab):
                pos[(b.loc_key, i, dst)] = k + 1
    dul = []
    for src, dst in du.edges():
        if not src.var.is_id():
            continue
        dul.append({"sb": J.loc_name(src.label), "si": src.index, "sv": src.var.name,
                    "db": J.loc_name(dst.label), "di": dst.index, "dk": pos[(dst.label, dst.index, dst.var)]})
    lv = DiGraphLivenessIRA(ircfg)
    lv.init_var_info(lifter)
    lv.compute_liveness()
    live = []
    for lk, infos in lv.blocks.items():
        for i, info in enumerate(infos.infos):
            live.append({"b": J.loc_name(lk), "i": i, "vin": sorted(x.name for x in info.var_in if x.is_id()),
                         "vout": sorted(x.name for x in info.var_out if x.is_id())})
    out = sorted(x.name for x in lifter.get_out_regs(None))
    return {"t": "dflow", "blocks": bj, "edges": edges + [{"s": "-", "d": "-"}], "out": out,
            "rd": rdl + [{"b": bj[0]["loc"], "i": 0, "v": "-", "defs": []}], "du": dul, "live": live}


def run(ctx):
    from miasm.analysis.machine import Machine
    from miasm.core.locationdb import LocationDB
    q = ctx.quick
    rng = ctx.rng
    machine = Machine("x86_32")
    items, meta = [], []
    hangs = 0
    for n in range(250 if q else 3000):
        loc_db = LocationDB()
        lifter = machine.lifter_model_call(loc_db)
        g = synthetic(rng, lifter, loc_db)
        if rng.random() < 0.75:
            # most graphs: every block can reach an exit (the exit-less ones are the known finding's territory)
            for _ in range(8):
                if not exitless("\n".join(str(b) for b in g.blocks.values())):
                    break
                loc_db = LocationDB()
                lifter = machine.lifter_model_call(loc_db)
                g = synthetic(rng, lifter, loc_db)
        if hangs >= 3:
            break
        try:
            with core.deadline(20):
                items.append(facts(g, lifter))
            meta.append(("synthetic", "\n".join(str(b) for b in g.blocks.values())))
        except Exception as ex:
            hangs += isinstance(ex, core.Hang)
            ctx.violation("data-flow-analysis-raised", {"graph": [str(b) for b in g.blocks.values()], "raised": type(ex).__name__ + ":" + str(ex)[:200]})
    for n in range(12 if q else 150):
        gen = asmgen.AsmGen(rng, loops=rng.random() < 0.6)
        src = gen.function(nseg=rng.randrange(1, 4))
        try:
            loc_db, lifter, cfg, head, make = asmgen.build(machine, src)
            g = make()
        except Exception as ex:
            continue
        if hangs >= 3:
            break
        try:
            with core.deadline(60):
                items.append(facts(g, lifter))
            meta.append(("lifted", src))
        except Exception as ex:
            hangs += isinstance(ex, core.Hang)
            ctx.violation("data-flow-analysis-raised", {"source": src, "raised": type(ex).__name__ + ":" + str(ex)[:200]})
    verdicts = X.judge(ctx, items, label="c38", module="IRJudge", chunk=300, timeout=3000)
    counts = {}
    for v, mt in zip(verdicts, meta):
        key = mt[0] + ":" + ":".join(v.split(":")[:2])
        counts[key] = counts.get(key, 0) + 1
        if v.startswith("bad"):
            if "liveness" in v and LIVE_EXITLESS in ctx.findings and mt[0] == "synthetic" and exitless(mt[1]):
                ctx.known(LIVE_EXITLESS, "e.g. %s on %s" % (v, mt[1][:300].replace("\n", " ; ")))
                continue
            ctx.violation("data-flow-fact-differs-from-path-definition", {"kind": mt[0], "program": mt[1], "verdict": v})
    ctx.traces += len(items)
    ctx.evaluations += len(items)
    ctx.distinct = set(meta)
    for k in (0, len(meta) // 2, len(meta) - 1):
        ctx.sample({"kind": meta[k][0], "program": meta[k][1][:300], "tlc_verdict": verdicts[k]})
    ctx.notes["verdicts"] = counts
    ctx.assumptions += ["only register (identifier) facts are compared; memory cells as data-flow variables are not",
                        "def-use links are taken with deref_mem=True (reads inside pointers are uses); liveness is DiGraphLivenessIRA "
                        "with the ABI's output registers live at the exits"]
    return ("synthetic IR graphs over three variables (up to 6 blocks, arbitrary edges incl. loops without exit and unreachable blocks, "
            "parallel assign blocks with swaps and cross dependencies) and lifted random x86-32 functions: TLC computes reaching "
            "definitions, def-use links and liveness from their path definitions and requires equality (both inclusions) with "
            "ReachingDefinitions, DiGraphDefUse and DiGraphLivenessIRA")


LIVE_EXITLESS = "liveness-needs-an-exit"


def exitless(text):
    """does the synthetic graph contain a block from which no leaf is reachable?  (decided on the printed graph: every block
    ends with IRDst = ...; a leaf block jumps to a constant)"""
    blocks = {}
    cur = None
    for line in text.split("\n"):
        if line.endswith(":") and not line.startswith(" "):
            cur = line[:-1]
            blocks[cur] = []
        elif line.startswith("IRDst = ") and cur:
            blocks[cur] = [x for x in blocks if False]
            blocks[cur] = line[8:]
    succ = {}
    for b, d in blocks.items():
        succ[b] = [x for x in blocks if isinstance(d, str) and x in d]
    leaves = [b for b in blocks if not succ[b]]
    can = set(leaves)
    changed = True
    while changed:
        changed = False
        for b in blocks:
            if b not in can and any(s in can for s in succ[b]):
                can.add(b)
                changed = True
    return len(can) < len(blocks)
