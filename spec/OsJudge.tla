------------------------------- MODULE OsJudge -------------------------------
(* Batch judge: every item is one call of an emulated OS helper (function, arguments, memory before / after, result registers) *)
EXTENDS OsHelpers, Json, IOUtils, TLC
VARIABLES lo, hi
Items == JsonDeserialize(IOEnv.ITEMS_FILE)
Init == lo = 1 /\ hi = Len(Items)
Next == /\ lo < hi
        /\ LET mid == (lo + hi) \div 2 IN
           \/ (lo' = lo /\ hi' = mid)
           \/ (lo' = mid + 1 /\ hi' = hi)
Report == lo < hi \/ PrintT("V " \o ToString(lo) \o " " \o OVerdict(Items[lo]))
=============================================================================
