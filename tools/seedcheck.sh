#!/bin/sh
# usage: seedcheck.sh <ID> <N> [tier] : confirm seeded change /tmp/seed_<ID>/patch<N>.diff and run the check against it.
# Everything in /repo is restored afterwards.  Results -> /verif/seeded/<ID>_<N>/
ID=$1; N=$2; TIER=${3:-quick}
S=/tmp/seed_$ID; D=/verif/seeded/${ID}_$N; WT=/tmp/wt_$ID
mkdir -p $D
cp $S/patch$N.diff $D/patch.diff; cp $S/demo$N.py $D/demo.py 2>/dev/null; cp $S/notes$N.txt $D/notes.txt 2>/dev/null
cd /repo || exit 2
if [ -n "$(git status --porcelain --untracked-files=no)" ]; then echo "/repo not clean"; exit 2; fi
# 1. demo passes on the unchanged tree
NEEDC=$(grep -c '^+++ b/.*\.[ch]$' $D/patch.diff)
if [ "$NEEDC" != "0" ]; then
  # C change: demos run in the worktree with rebuilt extensions
  git -C $WT checkout -q -- . ; (cd $WT && timeout 900 /venv/bin/python setup.py build_ext --inplace >/dev/null 2>&1)
  (cd $WT && PYTHONPATH=$WT timeout 300 /venv/bin/python $D/demo.py >/dev/null 2>&1); CLEAN=$?
  git -C $WT apply $D/patch.diff && (cd $WT && timeout 900 /venv/bin/python setup.py build_ext --inplace >/dev/null 2>&1)
  (cd $WT && PYTHONPATH=$WT timeout 300 /venv/bin/python $D/demo.py >/dev/null 2>&1); MUT=$?
  TESTS=$(cd $WT && timeout 900 /venv/bin/python -m pytest -q -p no:cacheprovider test/arch/mep 2>&1 | tail -1)
  git -C $WT checkout -q -- .
  git apply $D/patch.diff || { echo "patch does not apply to /repo"; exit 2; }
else
  PYTHONPATH=/repo timeout 300 /venv/bin/python $D/demo.py >/dev/null 2>&1; CLEAN=$?
  git apply $D/patch.diff || { echo "patch does not apply to /repo"; exit 2; }
  PYTHONPATH=/repo timeout 300 /venv/bin/python $D/demo.py >/dev/null 2>&1; MUT=$?
  TESTS=$(timeout 900 /venv/bin/python -m pytest -q -p no:cacheprovider test/arch/mep 2>&1 | tail -1)
fi
cd /verif
timeout 3000 ./check $ID --tier $TIER > $D/check_$TIER.log 2>&1; RC=$?
cp evidence/$ID.json $D/evidence_mutated.json 2>/dev/null
git -C /repo checkout -q -- .
git -C /verif checkout -q -- evidence/$ID.json 2>/dev/null
VIO=$(grep -c '^VIOLATION' $D/check_$TIER.log)
cat > $D/meta.json <<EOM
{"property": "$ID", "patch": "patch.diff", "demo": "demo.py",
 "demo_exit_unchanged": $CLEAN, "demo_exit_with_change": $MUT, "existing_tests_with_change": "$TESTS",
 "check_cmd": "./check $ID --tier $TIER", "check_exit_with_change": $RC, "violation_lines": $VIO,
 "needs": "$(tr '\n"' '  ' < $D/notes.txt | cut -c1-600)"}
EOM
echo "$ID/$N demo clean=$CLEAN mutated=$MUT tests='$TESTS' check_rc=$RC violations=$VIO"
