"""C10 range analysis over-approximates: expr_range and every ModularIntervals operation."""
import itertools

from .. import core
from .. import exprjson as X
from .. import exprgen

BINOPS = {"+": lambda x, y: x + y, "&": lambda x, y: x & y, "|": lambda x, y: x | y, "^": lambda x, y: x ^ y,
          "*": lambda x, y: x * y, ">>": lambda x, y: x >> y, "<<": lambda x, y: x << y,
          "a>>": lambda x, y: x.arithmetic_shift_right(y), ">>>": lambda x, y: x.rotation_right(y),
          "<<<": lambda x, y: x.rotation_left(y)}


def ivs_of(mi):
    return [[int(a), int(b)] for a, b in mi.intervals]


def run(ctx):
    from miasm.analysis.modularintervals import ModularIntervals
    from miasm.analysis.expression_range import expr_range
    from miasm.core.interval import interval
    import miasm.expression.expression as m
    q = ctx.quick
    rng = ctx.rng
    items, meta = [], []
    # 1. every modular-interval operation, exhaustively over all pairs of single intervals (and sampled unions) at small widths
    for w in ((1, 2, 3) if q else (1, 2, 3, 4)):
        mask = (1 << w) - 1
        singles = [[(a, b)] for a in range(mask + 1) for b in range(a, mask + 1)]
        sets = list(singles)
        if w >= 3:
            for _ in range(30 if q else 80):
                k = rng.sample(range(mask + 1), 4)
                k.sort()
                sets.append([(k[0], k[1]), (k[2], k[3])])
        pairs = list(itertools.product(sets, repeat=2))
        if w == 4 and len(pairs) > 9000:
            pairs = rng.sample(pairs, 9000)
        for xs, ys in pairs:
            X_ = ModularIntervals(w, interval(xs))
            Y_ = ModularIntervals(w, interval(ys))
            for op, f in BINOPS.items():
                try:
                    R = f(X_, Y_)
                except Exception as ex:
                    ctx.violation("modular-interval-op-raised", {"op": op, "w": w, "X": xs, "Y": ys, "raised": type(ex).__name__ + ":" + str(ex)[:150]})
                    continue
                items.append({"t": "miop", "op": op, "w": w, "arity": 2, "X": ivs_of(X_), "Y": ivs_of(Y_), "R": ivs_of(R) + [[1, 0]]})
                meta.append(("miop", op, w, xs, ys, ivs_of(R)))
        for xs in sets:
            X_ = ModularIntervals(w, interval(xs))
            R = -X_
            items.append({"t": "miop", "op": "-", "w": w, "arity": 1, "X": ivs_of(X_), "Y": [[0, 0]], "R": ivs_of(R) + [[1, 0]]})
            meta.append(("miop", "-", w, xs, None, ivs_of(R)))
            for mod in range(1, mask + 1):
                R = X_ % mod
                items.append({"t": "miop", "op": "umod", "w": w, "arity": 2, "X": ivs_of(X_), "Y": [[mod, mod]], "R": ivs_of(R) + [[1, 0]]})
                meta.append(("miop", "%", w, xs, mod, ivs_of(R)))
    n_miop = len(items)
    # 2. expr_range on expressions: all valuations at small widths, boundary+random at wider ones
    exprs = []
    for e in exprgen.enumerate_small((1, 2, 3)):
        exprs.append(e)
    if q:
        exprs = rng.sample(exprs, 4000)
    g = exprgen.Gen(rng, widths=[8, 16, 32, 64], ptr=32)
    gs = exprgen.Gen(rng, widths=[3, 4], ids_per_width=2, allow_mem=False)
    for _ in range(600 if q else 6000):
        exprs.append(gs.expr(rng.choice([3, 4]), rng.choice([2, 3])))
    for _ in range(500 if q else 6000):
        exprs.append(g.expr(rng.choice([8, 16, 32, 64]), rng.choice([1, 2, 3])))
    # masks, n-ary sums, composes of narrow parts: forms with a non-trivial range
    a8, b8 = m.ExprId("a8", 8), m.ExprId("b8", 8)
    for _ in range(300 if q else 3000):
        k1, k2, k3 = (m.ExprInt(rng.choice([3, 7, 0x30, 0xf0, 1, 0x80, rng.getrandbits(8)]), 8) for _ in range(3))
        forms = [(a8 & k1) + (b8 & k2) + k3, m.ExprOp("+", a8 & k1, k2, b8 & k3), (a8 & k1) | (b8 & k2) | k3,
                 m.ExprOp("^", a8 & k1, b8 & k2, k3), ((a8 & k1) * k2) + (b8 & k3), m.ExprCompose(a8 & k1, b8 & k2)[4:12],
                 m.ExprCond(a8, k1, k2) + (b8 & k3), (a8 & k1) >> m.ExprInt(rng.randrange(9), 8), -(a8 & k1),
                 m.ExprOp("%", a8, k1 | m.ExprInt(1, 8)), m.ExprOp(">>>", a8 & k1, k2), m.ExprOp("a>>", a8 | k1, k2 & m.ExprInt(7, 8))]
        exprs.append(rng.choice(forms))
    for e in exprs:
        if e.size > 64:
            continue
        try:
            ja = X.to_json(e)
        except ValueError:
            continue
        raised = None
        try:
            r = expr_range(e)
            ivs = [[X.ibytes(a, e.size), X.ibytes(b, e.size)] for a, b in r.intervals]
        except Exception as ex:
            # no range at all: a violation iff the expression has a defined value under some valuation (TLC decides)
            raised = type(ex).__name__ + ":" + str(ex)[:150]
            ivs = []
        sizes = X.ids_of(e)
        total = sum(sizes.values())
        envs = X.all_envs(sizes) if total <= 8 else X.make_envs(sizes, rng, 12)
        items.append({"t": "range", "a": ja, "ivs": ivs + [[X.ibytes(1, e.size), X.ibytes(0, e.size)]], "envs": [X.env_json(v, sizes) for v in envs]})
        meta.append(("range", e, envs, ivs_of(r) if raised is None else "raised " + raised))
    verdicts = X.judge(ctx, items, label="c10", chunk=8000)
    counts = {}
    for v, mt in zip(verdicts, meta):
        key = v.split(":")[0]
        counts[mt[0] + ":" + key] = counts.get(mt[0] + ":" + key, 0) + 1
        if key == "outside":
            if mt[0] == "miop":
                ctx.violation("modular-interval-op-unsound", {"op": mt[1], "width": mt[2], "X": mt[3], "Y": mt[4], "R": mt[5],
                                                              "concrete_operands_outside": v})
            else:
                k = int(v.split(":")[1]) - 1
                ctx.violation("expr-range-unsound", {"expr": str(mt[1]), "range": mt[3], "env": mt[2][k]})
    ctx.traces += len(items)
    ctx.evaluations += len(items)
    ctx.distinct = set(str(mt[1:5]) for mt in meta)
    for k in (0, n_miop // 2, n_miop, len(meta) - 1):
        mt = meta[min(k, len(meta) - 1)]
        ctx.sample({"kind": mt[0], "what": str(mt[1])[:160], "detail": str(mt[2:])[:200], "tlc_verdict": verdicts[min(k, len(meta) - 1)]})
    ctx.notes["verdicts"] = counts
    ctx.notes["interval_operation_items"] = n_miop
    ctx.assumptions += ["Expr.tla/BV.tla is the reference for the concrete operations (modulo by zero is undefined and skipped)"]
    return ("ModularIntervals + & | ^ * >> << a>> >>> <<< neg %: all pairs of single intervals (and sampled two-interval sets) at widths "
            "1..3 (quick) / 1..4: TLC enumerates every member pair and checks the concrete result is inside the computed set; "
            "expr_range on enumerated small expressions under all valuations and on random / mask-shaped expressions at 8..64 bits")
