"""Observable equivalence of two IR graphs (original / transformed), judged by TLC on IRMachine.tla (IRJudge 'equiv' items)."""
from . import exprjson as X
from . import irjson as J


def graph_json(ircfg):
    return [J.block_json(b) for b in ircfg.blocks.values()]


def instrument(blocks_json, varmap):
    """shadow assignments OBS_<reg> := same value for every assignment to a variable that stands for <reg> (SSA renaming):
    OBS_<reg> then holds the value of the variable standing for the register, whatever its name at the exit"""
    out = []
    for b in blocks_json:
        nabs = []
        for ab in b["abs"]:
            nab = list(ab)
            for asg in ab:
                d = asg["d"]
                if d["k"] == "id" and d["n"] in varmap:
                    nab.append({"d": {"k": "id", "w": d["w"], "n": "OBS_" + varmap[d["n"]]}, "s": asg["s"]})
            nabs.append(nab)
        out.append({"loc": b["loc"], "abs": nabs})
    return out


def sizes_of(*graphs):
    sizes = {}

    def visit(e):
        k = e["k"]
        if k == "id":
            sizes[e["n"]] = e["w"]
        elif k == "mem":
            visit(e["p"])
        elif k == "slice":
            visit(e["a"])
        elif k == "cond":
            visit(e["c"]), visit(e["t"]), visit(e["f"])
        elif k in ("op", "compose"):
            for a in e["a"]:
                visit(a)
    for g in graphs:
        for b in g:
            sizes.setdefault(b["loc"], 32)
            for ab in b["abs"]:
                for asg in ab:
                    visit(asg["d"])
                    visit(asg["s"])
    return sizes


def make_envs(rng, sizes, n, regs32, obs_regs, init_alias=None):
    """n environments; OBS_<reg> and <reg>_init start equal to <reg>; ESP points to a region of its own"""
    envs = []
    for k in range(n):
        vals = {}
        for r in regs32:
            vals[r] = rng.choice(X.boundary_values(32)) if rng.random() < 0.4 else rng.getrandbits(32)
        vals["ESP"] = 0x4B000000 + rng.choice([0x100, 0x7F0, 0x1000, 0xFF00])
        vals["EBP"] = 0x37000000 + rng.choice([0x100, 0x800])
        for nm, w in sizes.items():
            if nm in vals or nm.startswith("loc_"):
                continue
            if nm.startswith("OBS_") and nm[4:] in vals:
                vals[nm] = vals[nm[4:]]
            elif nm.endswith("_init") and nm[:-5] in vals:
                vals[nm] = vals[nm[:-5]]
            elif "." in nm:
                vals[nm] = 0               # SSA variables are defined before they are read
            else:
                vals[nm] = rng.getrandbits(w) if w <= 64 else 0
        full = dict(sizes)
        for r in regs32:
            full.setdefault(r, 32)
        envs.append(J.ir_env(full, vals, rng.randrange(256)))
    return envs
