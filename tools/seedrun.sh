#!/bin/sh
# usage: seedrun.sh <ID> <N> [tier]
# Confirms the seeded change /tmp/seed_<ID>/patch<N>.diff in the scratch worktree /tmp/wt_<ID> (reset to /repo's HEAD)
# and runs ./check <ID> against that worktree (VERIF_REPO), never touching /repo.  Results -> /verif/seeded/<ID>_<N>/
ID=$1; N=$2; TIER=${3:-quick}
S=/tmp/seed_$ID; D=/verif/seeded/${ID}_$N; WT=/tmp/wt_$ID; OUT=/tmp/seedout_${ID}_$N
[ -d $WT ] || sh /verif/tools/mkworktree.sh $ID >/dev/null
mkdir -p $D $OUT
cp $S/patch$N.diff $D/patch.diff; cp $S/demo$N.py $D/demo.py 2>/dev/null; cp $S/notes$N.txt $D/notes.txt 2>/dev/null
HEAD=$(git -C /repo rev-parse HEAD)
git -C $WT checkout -q -- . ; git -C $WT checkout -q --detach $HEAD || exit 2
NEEDC=$(grep -c '^+++ b/.*\.[ch]$' $D/patch.diff)
build() { [ "$NEEDC" != "0" ] && (cd $WT && timeout 900 /venv/bin/python setup.py build_ext --inplace >/dev/null 2>&1); }
build
(cd $WT && PYTHONPATH=$WT:/verif/.deps timeout 600 /venv/bin/python $D/demo.py >/dev/null 2>&1); CLEAN=$?
git -C $WT apply $D/patch.diff || { echo "$ID/$N patch does not apply"; exit 2; }
build
(cd $WT && PYTHONPATH=$WT:/verif/.deps timeout 600 /venv/bin/python $D/demo.py >/dev/null 2>&1); MUT=$?
TESTS=$(cd $WT && timeout 900 /venv/bin/python -m pytest -q -p no:cacheprovider test/arch/mep 2>&1 | tail -1)
cd /verif
VERIF_REPO=$WT VERIF_OUT=$OUT timeout 3600 ./check $ID --tier $TIER > $D/check_$TIER.log 2>&1; RC=$?
cp $OUT/evidence/$ID.json $D/evidence_mutated.json 2>/dev/null
git -C $WT checkout -q -- . ; build
rm -rf $OUT
VIO=$(grep -c '^VIOLATION' $D/check_$TIER.log)
cat > $D/meta.json <<EOM
{"property": "$ID", "patch": "patch.diff", "demo": "demo.py", "repo_head": "$HEAD",
 "demo_exit_unchanged": $CLEAN, "demo_exit_with_change": $MUT, "existing_tests_with_change": "$TESTS",
 "check_cmd": "VERIF_REPO=<worktree with the change> ./check $ID --tier $TIER", "check_exit_with_change": $RC, "violation_lines": $VIO,
 "needs": "$(tr '\n"\\' '   ' < $D/notes.txt | cut -c1-700)"}
EOM
echo "$ID/$N demo clean=$CLEAN mutated=$MUT tests='$TESTS' check_rc=$RC violations=$VIO"
