"""C34 typed memory views read back what they write and stay in bounds: MemTypes.tla is the state machine of one memory region under
member writes; recorded histories of writes through miasm.core.types views are validated by TLC step by step."""
from .. import core, overlay
from .. import exprjson as X

BASE = 0x1000
N = 160
NUMS = [("B", 1), ("H", 2), ("I", 4), ("Q", 8)]
ENCS = [("ascii", 1), ("latin1", 1), ("ansi", 1), ("utf8", 1), ("utf16", 2)]


class TypeGen(object):
    def __init__(self, rng, T):
        self.rng, self.T, self.n = rng, T, 0

    def num(self):
        c, n = self.rng.choice(NUMS)
        be = self.rng.random() < 0.4
        return self.T.Num((">" if be else "<") + c), {"k": "base", "size": n, "align": 1, "be": be, "bits": [0]}

    def bitfield(self):
        rng = self.rng
        c, n = rng.choice(NUMS[:3] + NUMS[:2])
        be = rng.random() < 0.4
        total = 8 * n
        widths = []
        left = total if rng.random() < 0.5 else rng.randrange(1, total + 1)      # half of them reach the most significant bit
        while left > 0 and len(widths) < 5:
            w = rng.randrange(1, left + 1) if len(widths) < 4 else left
            widths.append(w)
            left -= w
        t = self.T.BitField(self.T.Num((">" if be else "<") + c), [("b%d" % i, w) for i, w in enumerate(widths)])
        return t, {"k": "base", "size": n, "align": 1, "be": be, "bits": widths}

    def any(self, depth):
        rng, T = self.rng, self.T
        c = rng.random()
        if depth >= 3 or c < 0.4:
            return self.num()
        if c < 0.5:
            t, j = self.num()
            return T.Ptr(t._fmt if hasattr(t, "_fmt") else "<I", T.Num("B")), j if False else {"k": "base", "size": {"B": 1, "H": 2, "I": 4, "Q": 8}[(t._fmt if hasattr(t, "_fmt") else "<I")[-1]], "align": 1, "be": (t._fmt if hasattr(t, "_fmt") else "<I")[0] == ">", "bits": [0]}
        if c < 0.62:
            return self.bitfield()
        if c < 0.75:
            e, j = self.any(depth + 1)
            n = rng.randrange(1, 4)
            return T.Array(e, n), {"k": "array", "elem": j, "n": n}
        fields, js = [], []
        for i in range(rng.randrange(1, 4)):
            e, j = self.any(depth + 1)
            fields.append(("m%d" % i, e))
            js.append(j)
        self.n += 1
        if c < 0.9:
            return T.Struct("S%d_%d" % (id(self) % 100000, self.n), fields), {"k": "struct", "fields": js}
        return T.Union(fields), {"k": "union", "fields": js}


def leaves(j, path=()):
    """every path to a number (and to each member of a bit-field)"""
    if j["k"] == "base":
        yield path, 0
        if j["bits"] != [0]:
            for i in range(len(j["bits"])):
                yield path, i + 1
    elif j["k"] == "array":
        for i in range(j["n"]):
            for x in leaves(j["elem"], path + (("i", i),)):
                yield x
    else:
        for i, f in enumerate(j["fields"]):
            for x in leaves(f, path + (("f", i + 1),)):
                yield x


def type_at(j, path):
    for kind, n in path:
        j = j["fields"][n - 1] if kind == "f" else j["elem"]
    return j


def navigate(view, path):
    for kind, n in path:
        view = getattr(view, "m%d" % (n - 1)) if kind == "f" else view[n]
    return view


def run(ctx):
    overlay.activate(ctx, ("VmMngr",))
    from miasm.core import types as T
    from miasm.jitter.VmMngr import Vm
    from miasm.jitter.csts import PAGE_READ, PAGE_WRITE
    q = ctx.quick
    rng = ctx.rng
    items, meta = [], []
    for n in range(1500 if q else 12000):
        vm = Vm()
        m0 = [rng.randrange(256) for _ in range(N)]
        vm.add_memory_page(BASE, PAGE_READ | PAGE_WRITE, bytes(m0) + b"\x00" * 64, "region")
        gen = TypeGen(rng, T)
        fields, js = [], []
        for i in range(rng.randrange(1, 5)):
            e, j = gen.any(1)
            fields.append(("m%d" % i, e))
            js.append(j)
        tj = {"k": "struct", "fields": js}
        try:
            root_t = T.Struct("R%d" % n, fields)
            size = root_t.size
        except Exception as ex:
            ctx.violation("type-definition-raised", {"type": repr(fields)[:400], "raised": type(ex).__name__ + ":" + str(ex)[:200]})
            continue
        if size > N - 24:
            continue
        root = root_t.lval(vm, BASE)
        ops = []
        allp = list(leaves(tj))
        for _ in range(rng.randrange(2, 7)):
            path, bit = rng.choice(allp)
            leaf = type_at(tj, path)
            nbytes = leaf["size"]
            width = 8 * nbytes if bit == 0 else leaf["bits"][bit - 1]
            val = rng.choice([0, 1, (1 << width) - 1, 1 << (width - 1), rng.getrandbits(width), rng.getrandbits(8 * nbytes)])
            op = {"kind": "set", "path": [{"kind": k, "n": i} for k, i in path], "bit": bit, "val": list((val & ((1 << (8 * nbytes)) - 1)).to_bytes(nbytes, "little")),
                  "after": [], "back": [], "roff": -1, "rsize": -1, "raised": "", "off": 0, "raw": [], "term": 0}
            try:
                parent = navigate(root, path[:-1])
                kind, i = path[-1]
                name = "m%d" % (i - 1)
                if bit:
                    bfv = getattr(parent, name) if kind == "f" else parent[i]
                    setattr(bfv, "b%d" % (bit - 1), val)
                    back = getattr(bfv, "b%d" % (bit - 1))
                    op["roff"] = bfv.get_addr() - BASE
                    op["rsize"] = bfv.get_type().size
                else:
                    if kind == "f":
                        setattr(parent, name, val & ((1 << (8 * nbytes)) - 1))
                        back = getattr(parent, name)
                        op["roff"] = parent.get_addr(name) - BASE
                        op["rsize"] = parent.get_type().get_field_type(name).size
                    else:
                        parent[i] = val & ((1 << (8 * nbytes)) - 1)
                        back = parent[i]
                        op["roff"] = parent.get_addr() + parent.get_type().get_offset(i) - BASE
                        op["rsize"] = parent.get_type().field_type.size
                if not isinstance(back, int):
                    back = back.val if hasattr(back, "val") else int.from_bytes(bytes(back), "big" if leaf["be"] else "little")        # pointers, bit-fields: the view's bytes
                op["back"] = list((back & ((1 << (8 * nbytes)) - 1)).to_bytes(nbytes, "little"))
            except Exception as ex:
                op["raised"] = type(ex).__name__ + ":" + str(ex)[:100].replace('"', "'")
            op["after"] = list(vm.get_mem(BASE, N))
            ops.append(op)
        # a string after the structure
        if rng.random() < 0.6:
            enc, term = rng.choice(ENCS)
            text = "".join(rng.choice(["a", "Z", "0", " ", "é" if enc not in ("ascii",) else "b", "€" if enc in ("utf8", "utf16") else "c"])
                           for _ in range(rng.randrange(0, 7)))
            off = size + 2
            op = {"kind": "str", "path": [], "bit": 0, "val": [], "after": [], "back": [], "roff": -1, "rsize": -1, "raised": "", "off": off,
                  "raw": list(text.encode({"ansi": "latin1"}.get(enc, enc if enc != "utf16" else "utf-16le"))), "term": term}
            try:
                sv = T.Str(enc).lval(vm, BASE + off)
                sv.val = text
                op["rsize"] = sv.get_size()
                op["back"] = list(sv.val.encode({"ansi": "latin1"}.get(enc, enc if enc != "utf16" else "utf-16le")))
            except Exception as ex:
                op["raised"] = type(ex).__name__ + ":" + str(ex)[:100].replace('"', "'")
            op["after"] = list(vm.get_mem(BASE, N))
            ops.append(op)
        items.append({"t": tj, "m0": m0, "ops": ops, "rsize": size})
        meta.append(repr(root_t) + " " + repr(fields)[:600])
    verdicts = X.judge(ctx, items, label="c34", module="MemTypesJudge", chunk=600)
    counts = {}
    for v, mt, it in zip(verdicts, meta, items):
        key = ":".join(v.split(":")[:1] + v.split(":")[2:3])
        counts[key] = counts.get(key, 0) + 1
        if v != "ok":
            k = int(v.split(":")[1])
            ctx.violation("view-write-differs", {"type": mt, "verdict": v, "operation": {x: y for x, y in (it["ops"][k - 1] if k else {}).items() if x != "after"},
                                                 "memory_before": bytes(it["m0"]).hex()})
    ctx.traces += len(items)
    ctx.evaluations += sum(len(i["ops"]) for i in items)
    ctx.distinct = set(meta)
    for k in (0, len(meta) // 2, len(meta) - 1):
        ctx.sample({"type": meta[k][:300], "writes": len(items[k]["ops"]), "tlc_verdict": verdicts[k]})
    ctx.notes["verdicts"] = counts
    ctx.assumptions += ["types: structs (nesting up to 3), unions, fixed arrays, little / big-endian integers of 1..8 bytes, pointers, "
                        "bit-fields (half of them reaching the most significant bit), strings (ascii, latin1, ansi, utf8, utf16) placed "
                        "after the structure; floats are not covered", "MemTypes.tla reuses CLayout.tla's packed layout for offsets and sizes"]
    return ("random type definitions with histories of 2..6 member writes (edge and random values, wider than the member too) through "
            "the MemStruct / MemArray / MemBitField views and a string write: after every write TLC requires the region to be the "
            "previous one with exactly the member's bytes (or bits) replaced, the value read back, and the reported offsets / sizes")
