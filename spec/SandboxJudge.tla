----------------------------- MODULE SandboxJudge -----------------------------
(* Batch judge: every item is one host tree with the host paths the emulated environment returned for a batch of guest paths *)
EXTENDS SandboxFS, Json, IOUtils
VARIABLES lo, hi
Items == JsonDeserialize(IOEnv.ITEMS_FILE)
Init == lo = 1 /\ hi = Len(Items)
Next == /\ lo < hi
        /\ LET mid == (lo + hi) \div 2 IN
           \/ (lo' = lo /\ hi' = mid)
           \/ (lo' = mid + 1 /\ hi' = hi)
Report == lo < hi \/ PrintT("V " \o ToString(lo) \o " " \o Verdict(Items[lo]))
=============================================================================
