"""C36 IR graph simplification (plain and SSA pipelines) preserves observable behaviour."""
from .. import core
from .. import exprjson as X
from .. import irequiv as Q
from .. import asmgen

SSA_LOOPS = "ssa-pipeline-on-loops"
SSA_REDUNDANT = "ssa-pipeline-drops-redundant-stores"
REGS32 = ["EAX", "EBX", "ECX", "EDX", "ESI", "EDI", "EBP", "ESP"]


def run(ctx):
    from miasm.analysis.machine import Machine
    from miasm.analysis.simplifier import IRCFGSimplifierCommon, IRCFGSimplifierSSA
    q = ctx.quick
    rng = ctx.rng
    machine = Machine("x86_32")
    items, meta = [], []
    skipped = {}
    for n in range(70 if q else 700):
        gen = asmgen.AsmGen(rng, loops=rng.random() < 0.6)
        src = gen.function()
        try:
            loc_db, lifter, cfg, head, make = asmgen.build(machine, src)
        except Exception as ex:
            skipped["build:" + type(ex).__name__] = skipped.get("build:" + type(ex).__name__, 0) + 1
            continue
        try:
            orig = Q.graph_json(make())
        except ValueError:
            continue
        from .. import irjson as J
        start = J.loc_name(head)
        for name, cls in (("plain", IRCFGSimplifierCommon), ("ssa", IRCFGSimplifierSSA)):
            g = make()
            try:
                simp = cls(lifter)
                out = simp.simplify(g, head)
                res = out if hasattr(out, "blocks") else g
                tj = Q.graph_json(res)
            except Exception as ex:
                ctx.violation("simplifier-raised", {"pipeline": name, "source": src, "raised": type(ex).__name__ + ":" + str(ex)[:200]})
                continue
            varmap = {}
            if name == "ssa":
                for v, reg in getattr(simp, "all_ssa_vars", {}).items():
                    if reg.is_id() and reg.name in ("EAX", "ESP"):
                        varmap[v.name] = reg.name
                varmap["EAX"] = "EAX"
                varmap["ESP"] = "ESP"
                tj = Q.instrument(tj, varmap)
                obs = [{"a": "EAX", "b": "OBS_EAX", "w": 32}, {"a": "ESP", "b": "OBS_ESP", "w": 32}]
            else:
                obs = [{"a": "EAX", "b": "EAX", "w": 32}, {"a": "ESP", "b": "ESP", "w": 32}]
            sizes = Q.sizes_of(orig, tj)
            sizes["OBS_EAX"] = sizes["OBS_ESP"] = 32
            sizes["IRDst"] = 32
            envs = Q.make_envs(rng, sizes, 5, REGS32, ("EAX", "ESP"))
            items.append({"t": "equiv", "a": orig, "b": tj, "starta": start, "startb": start, "w": 32, "obs": obs, "envs": envs,
                          "budget": 120, "ordered": True})
            meta.append((name, src, len(orig), len(tj), bool(make().has_loop())))
    verdicts = X.judge(ctx, items, label="c36", module="IRJudge", chunk=400)
    counts = {}
    for v, mt in zip(verdicts, meta):
        key = mt[0] + ":" + v.split(":")[0]
        counts[key] = counts.get(key, 0) + 1
        if v.startswith("bad"):
            if mt[0] == "ssa" and "only-writes-of-the-value-already-there-differ" in v and SSA_REDUNDANT in ctx.findings:
                ctx.known(SSA_REDUNDANT, "e.g. on %s" % mt[1][:300].replace("\n", " ; "))
                continue
            if mt[0] == "ssa" and mt[4] and SSA_LOOPS in ctx.findings:
                ctx.known(SSA_LOOPS, "e.g. verdict %s on\n%s" % (v, mt[1][:400].replace("\n", " ; ")))
                continue
            ctx.violation("simplified-graph-differs", {"pipeline": mt[0], "has_loop": mt[4], "source": mt[1], "verdict": v})
    ctx.traces += len(items)
    ctx.evaluations += sum(len(i["envs"]) for i in items)
    ctx.distinct = set((m[0], m[1]) for m in meta)
    for k in (0, len(meta) // 2, len(meta) - 1):
        ctx.sample({"pipeline": meta[k][0], "source": meta[k][1][:300], "blocks": [meta[k][2], meta[k][3]], "tlc_verdict": verdicts[k]})
    ctx.notes["verdicts"] = counts
    ctx.notes["skipped"] = skipped
    ctx.assumptions += ["IRMachine.tla is the concrete semantics; functions are random structured x86-32 code without calls",
                        "the SSA pipeline's result is observed through shadow variables following every variable that stands for EAX / ESP",
                        "memory writes are compared as the ordered byte-write log"]
    return ("random structured x86-32 functions (diamonds, nested ifs, jump-only blocks, counted loops, stack slots and absolute cells "
            "with mixed widths, push/pop) lifted to IR graphs; the plain and the SSA simplification pipelines are applied and TLC runs "
            "original and simplified graph on IRMachine.tla from several initial states: same ordered memory writes, same exit, same "
            "EAX and ESP (read through the standing variable)")
