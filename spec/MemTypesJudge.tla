----------------------------- MODULE MemTypesJudge -----------------------------
(* Batch judge: every item is one type definition with a recorded history of writes through its memory views *)
EXTENDS MemTypes, Json, IOUtils
VARIABLES lo, hi
Items == JsonDeserialize(IOEnv.ITEMS_FILE)
Init == lo = 1 /\ hi = Len(Items)
Next == /\ lo < hi
        /\ LET mid == (lo + hi) \div 2 IN
           \/ (lo' = lo /\ hi' = mid)
           \/ (lo' = mid + 1 /\ hi' = hi)
Report == lo < hi \/ PrintT("V " \o ToString(lo) \o " " \o MVerdict(Items[lo]))
=============================================================================
