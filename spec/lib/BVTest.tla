-------------------------------- MODULE BVTest --------------------------------
(* Self-check of BV.tla: every operator against its integer-arithmetic definition, *)
(* exhaustively over all operand values of width W (run for W = 1..5).              *)
EXTENDS BV, TLC
CONSTANT W
VARIABLES a, b, c
M == 2 ^ W
Init == a \in 0..(M - 1) /\ b \in 0..(M - 1) /\ c \in {0, 1}
Next == UNCHANGED <<a, b, c>>
X == FromNat(a, W)
Y == FromNat(b, W)
SI(n) == IF n >= M \div 2 THEN n - M ELSE n          \* signed reading
U(n) == ((n % M) + M) % M                             \* wrap an integer
AbsI(n) == IF n < 0 THEN -n ELSE n
TDiv(n, d) == IF (n < 0) = (d < 0) THEN AbsI(n) \div AbsI(d) ELSE -(AbsI(n) \div AbsI(d))   \* truncation toward zero
TRem(n, d) == n - d * TDiv(n, d)
PopN(n) == LET RECURSIVE P(_) P(k) == IF k = 0 THEN 0 ELSE (k % 2) + P(k \div 2) IN P(n)
ClzN == IF a = 0 THEN W ELSE W - 1 - (CHOOSE i \in 0..(W - 1) : 2 ^ i <= a /\ a < 2 ^ (i + 1))
CtzN == IF a = 0 THEN W ELSE CHOOSE i \in 0..(W - 1) : a % (2 ^ (i + 1)) = 2 ^ i
RotL(n, k) == U(n * 2 ^ k) + (n \div 2 ^ (W - k))
OK ==
  /\ ToNat(X) = a /\ ToInt(X) = SI(a)
  /\ ToNat(Add(X, Y)) = U(a + b) /\ ToNat(Sub(X, Y)) = U(a - b) /\ ToNat(Neg(X)) = U(-a)
  /\ ToNat(Mul(X, Y)) = U(a * b)
  /\ (b # 0 => /\ ToNat(UDiv(X, Y)) = a \div b /\ ToNat(UMod(X, Y)) = a % b
               /\ ToNat(SDiv(X, Y)) = U(TDiv(SI(a), SI(b))) /\ ToNat(SMod(X, Y)) = U(TRem(SI(a), SI(b))))
  /\ Ult(X, Y) = (a < b) /\ Ule(X, Y) = (a <= b) /\ Slt(X, Y) = (SI(a) < SI(b)) /\ Sle(X, Y) = (SI(a) <= SI(b))
  /\ ToNat(Shl(X, Y)) = (IF b >= W THEN 0 ELSE U(a * 2 ^ b))
  /\ ToNat(Lshr(X, Y)) = (IF b >= W THEN 0 ELSE a \div 2 ^ b)
  /\ ToNat(Ashr(X, Y)) = (IF b >= W THEN (IF SI(a) < 0 THEN M - 1 ELSE 0) ELSE U(SI(a) \div 2 ^ b))
  /\ ToNat(Rol(X, Y)) = RotL(a, b % W) /\ ToNat(Ror(X, Y)) = RotL(a, (W - (b % W)) % W)
  /\ ToNat(Parity(X)) = (PopN(a % 256) + 1) % 2
  /\ ToNat(Clz(X)) = U(ClzN) /\ ToNat(Ctz(X)) = U(CtzN)
  /\ AddCF(X, Y, c) = B2I(a + b + c >= M)
  /\ AddOF(X, Y, c) = B2I(SI(a) + SI(b) + c >= M \div 2 \/ SI(a) + SI(b) + c < -(M \div 2))
  /\ SubCF(X, Y, c) = B2I(a < b + c)
  /\ SubOF(X, Y, c) = B2I(SI(a) - SI(b) - c >= M \div 2 \/ SI(a) - SI(b) - c < -(M \div 2))
  /\ ToNat(AddWC(X, Y, c)) = U(a + b + c) /\ ToNat(SubWC(X, Y, c)) = U(a - b - c)
  /\ ToNat(SignExt(X, W + 3)) = ((SI(a) % (8 * M)) + 8 * M) % (8 * M) /\ ToNat(ZeroExt(X, W + 3)) = a
  /\ ToNat(BAnd(X, BNot(Y))) = ToNat(X) - ToNat(BAnd(X, Y))
  /\ ToNat(BXor(X, Y)) = ToNat(BOr(X, Y)) - ToNat(BAnd(X, Y))
  /\ FromBytes(<<a % 256>>, W) = X
=============================================================================
