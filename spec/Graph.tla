-------------------------------- MODULE Graph --------------------------------
(* miasm.core.graph.DiGraph (property C27): the graph algorithms, by their        *)
(* textbook definitions (quantification over paths / reachability), and the        *)
(* mutation API as a state machine whose projection carries every analysis result. *)
EXTENDS Integers, Sequences, FiniteSets, TLC

CONSTANT N                 \* nodes are drawn from 1..N
VARIABLES nodes, edges, ret
vars == <<nodes, edges, ret>>

(* ------------------------------------------------------------------------------ *)
(* definitions over an arbitrary graph (V, E)                                      *)
Succ(E, n) == {e[2] : e \in {x \in E : x[1] = n}}
Pred(E, n) == {e[1] : e \in {x \in E : x[2] = n}}
RevE(E) == {<<e[2], e[1]>> : e \in E}
(* nodes reachable from the set S (S included), never entering a node of Avoid *)
RECURSIVE ReachFrom(_, _, _)
ReachFrom(E, S, Avoid) ==
  LET nxt == (S \cup UNION {Succ(E, n) : n \in S}) \ Avoid IN
  IF nxt = S THEN S ELSE ReachFrom(E, nxt, Avoid)
Reach(E, h) == ReachFrom(E, {h}, {})
(* d dominates n (w.r.t. head h): every path from h to n goes through d *)
Dominates(E, h, d, n) == d = n \/ d = h \/ n \notin ReachFrom(E, {h} \ {d}, {d})
Dom(E, h) == [n \in Reach(E, h) |-> {d \in Reach(E, h) : Dominates(E, h, d, n)}]
SDom(E, h, n) == Dom(E, h)[n] \ {n}
(* the immediate dominator: the strict dominator that every other strict dominator dominates *)
IDom(E, h) == LET D == Dom(E, h) IN
              [n \in Reach(E, h) \ {h} |-> CHOOSE d \in D[n] \ {n} : \A e \in D[n] \ {n} : e \in D[d]]
DomTree(E, h) == LET I == IDom(E, h) IN {<<I[n], n>> : n \in DOMAIN I}
(* dominance frontier of x: nodes y with a predecessor dominated by x, y not strictly dominated by x *)
Frontier(E, h) == LET D == Dom(E, h) R == Reach(E, h) IN
                  [x \in R |-> {y \in R : (\E p \in Pred(E, y) \cap R : x \in D[p]) /\ ~(x \in D[y] /\ x # y)}]
BackEdges(E, h) == LET D == Dom(E, h) IN {e \in E : e[1] \in Reach(E, h) /\ e[2] \in D[e[1]]}
(* natural loop of the back edge a -> b: b and every node that reaches a without going through b *)
LoopBody(E, a, b) == {b} \cup ReachFrom(RevE(E), {a} \ {b}, {b})
SCCof(V, E, n) == {m \in V : m \in Reach(E, n) /\ n \in Reach(E, m)}
SCCs(V, E) == {SCCof(V, E, n) : n \in V}
WCCs(V, E) == LET U == E \cup RevE(E) IN {Reach(U, n) \cap V : n \in V}
HasLoop(V, E) == \E n \in V : \E s \in Succ(E, n) : n \in Reach(E, s)
(* simple paths from s to d: sequences of distinct nodes following edges *)
SeqsOver(S, k) == [1..k -> S]
SimplePaths(V, E, s, d) ==
  IF s = d THEN {<<s>>}
  ELSE UNION {{p \in SeqsOver(V, k) : /\ p[1] = s /\ p[k] = d
                                      /\ \A i, j \in 1..k : i # j => p[i] # p[j]
                                      /\ \A i \in 1..(k - 1) : <<p[i], p[i + 1]>> \in E} : k \in 2..Cardinality(V)}

(* ------------------------------------------------------------------------------ *)
(* everything the implementation must agree on, for a graph (V, E)                 *)
Analysis(V, E) ==
  [nodes |-> V, edges |-> E,
   heads |-> {n \in V : Pred(E, n) = {}}, leaves |-> {n \in V : Succ(E, n) = {}},
   sons |-> [h \in V |-> Reach(E, h)], parents |-> [l \in V |-> Reach(RevE(E), l)],
   dom |-> [h \in V |-> Dom(E, h)], pdom |-> [l \in V |-> Dom(RevE(E), l)],
   idom |-> [h \in V |-> IDom(E, h)], ipdom |-> [l \in V |-> IDom(RevE(E), l)],
   domtree |-> [h \in V |-> DomTree(E, h)],
   frontier |-> [h \in V |-> Frontier(E, h)],
   backedges |-> [h \in V |-> BackEdges(E, h)],
   loops |-> [h \in V |-> {<<e, LoopBody(E, e[1], e[2])>> : e \in BackEdges(E, h)}],
   scc |-> SCCs(V, E), wcc |-> WCCs(V, E), hasloop |-> HasLoop(V, E),
   paths |-> [s \in V |-> [d \in V |-> SimplePaths(V, E, s, d)]]]

(* ------------------------------------------------------------------------------ *)
(* the mutation API *)
Init == nodes = {} /\ edges = {} /\ ret = "none"
AddNode(n) == nodes' = nodes \cup {n} /\ ret' = (IF n \in nodes THEN "False" ELSE "True") /\ UNCHANGED edges
AddEdge(a, b) == <<a, b>> \notin edges /\ edges' = edges \cup {<<a, b>>} /\ nodes' = nodes \cup {a, b} /\ ret' = "ok"
DelEdge(a, b) == <<a, b>> \in edges /\ edges' = edges \ {<<a, b>>} /\ UNCHANGED nodes /\ ret' = "ok"
DelNode(n) == n \in nodes /\ nodes' = nodes \ {n} /\ edges' = {e \in edges : e[1] # n /\ e[2] # n} /\ ret' = "ok"
Do(o) == CASE o.op = "AddNode" -> AddNode(o.n)
           [] o.op = "AddEdge" -> AddEdge(o.a, o.b)
           [] o.op = "DelEdge" -> DelEdge(o.a, o.b)
           [] o.op = "DelNode" -> DelNode(o.n)
Ops == [op : {"AddNode", "DelNode"}, n : 1..N] \cup [op : {"AddEdge", "DelEdge"}, a : 1..N, b : 1..N]
Next == \E o \in Ops : Do(o)
Spec == Init /\ [][Next]_vars

EdgesOnNodes == \A e \in edges : e[1] \in nodes /\ e[2] \in nodes
(* consistency of the definitions themselves (checked by TLC on every explored graph) *)
DefsConsistent ==
  \A h \in nodes :
    /\ \A n \in Reach(edges, h) : h \in Dom(edges, h)[n] /\ n \in Dom(edges, h)[n]
    /\ \A n \in DOMAIN IDom(edges, h) : IDom(edges, h)[n] \in SDom(edges, h, n)
    /\ \A e \in BackEdges(edges, h) : e[1] \in LoopBody(edges, e[1], e[2])

Proj == Analysis(nodes, edges)
AbsView == <<nodes, edges>>
(* graph number k over all N nodes: edge (a, b) present iff bit (a-1)*N + (b-1) of k is set *)
EdgesOfNumber(k) == {<<a, b>> \in (1..N) \X (1..N) : (k \div (2 ^ ((a - 1) * N + (b - 1)))) % 2 = 1}
=============================================================================
