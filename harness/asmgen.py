"""Random structured x86-32 functions (assembly text -> assembled bytes -> disassembled CFG -> IR graph).

Used by the IR-transformation checks (C36, C37, C38, C39, C40): diamonds, nested ifs, counted loops, jump-only blocks, stack
slots and absolute memory cells with mixed access widths, pushes / pops; every function ends in RET."""

REGS = ["EAX", "EBX", "ECX", "EDX", "ESI", "EDI"]
REG8 = {"EAX": "AL", "EBX": "BL", "ECX": "CL", "EDX": "DL"}
REG16 = {"EAX": "AX", "EBX": "BX", "ECX": "CX", "EDX": "DX"}
JCC = ["JZ", "JNZ", "JB", "JAE", "JL", "JGE", "JBE", "JA", "JS", "JNS", "JLE", "JG"]


class AsmGen(object):
    def __init__(self, rng, loops=True, calls=False, split_cells=False):
        # split_cells: cells that are loaded are never stored (and no push / pop): memory read values never change
        self.split = split_cells
        self.rng = rng
        self.n = 0
        self.loops = loops
        self.lines = []
        self.depth = 0

    def label(self):
        self.n += 1
        return "L%d" % self.n

    def reg(self, avoid=()):
        return self.rng.choice([r for r in REGS if r not in avoid])

    def mem(self, size="DWORD", store=False):
        r = self.rng
        if self.split:
            if r.random() < 0.7:
                return "%s PTR [ESP+0x%X]" % (size, r.choice([0x1C, 0x20] if store else [0x10, 0x14, 0x18]) + (r.choice([0, 1, 2, 3]) if size != "DWORD" else 0))
            return "%s PTR [0x%X]" % (size, r.choice([0x2004, 0x2008] if store else [0x2000]) + (r.choice([0, 1, 2]) if size != "DWORD" else 0))
        if r.random() < 0.7:
            return "%s PTR [ESP+0x%X]" % (size, r.choice([0x10, 0x14, 0x18, 0x1C, 0x20]) + (r.choice([0, 1, 2, 3]) if size != "DWORD" else 0))
        return "%s PTR [0x%X]" % (size, r.choice([0x2000, 0x2004, 0x2008]) + (r.choice([0, 1, 2]) if size != "DWORD" else 0))

    def simple(self, avoid=()):
        r = self.rng
        d = self.reg(avoid)
        c = r.random()
        if c < 0.2:
            return "MOV %s, 0x%X" % (d, r.choice([0, 1, 2, 0x10, 0x7F, 0x80, 0xFF, 0x11223344, 0xFFFFFFFF, r.getrandbits(32)]))
        if c < 0.35:
            return "MOV %s, %s" % (d, self.reg())
        if c < 0.55:
            return "%s %s, %s" % (r.choice(["ADD", "SUB", "XOR", "AND", "OR"]), d, r.choice([self.reg(), "0x%X" % r.choice([1, 3, 0x10, 0xFF])]))
        if c < 0.62:
            return "%s %s, 0x%X" % (r.choice(["SHL", "SHR", "SAR"]), d, r.randrange(1, 9))
        if c < 0.68:
            return "%s %s" % (r.choice(["INC", "DEC", "NOT", "NEG"]), d)
        if c < 0.74:
            return "LEA %s, DWORD PTR [%s+%s*%d+0x%X]" % (d, self.reg(), self.reg(), r.choice([1, 2, 4]), r.choice([0, 4, 0x10]))
        if c < 0.77:
            # a load through a register pointer (the register may be redefined later)
            return "MOV %s, DWORD PTR [%s+0x%X]" % (d, self.reg(), r.choice([0, 4, 8]))
        if c < 0.84:
            return "MOV %s, %s" % (d, self.mem())
        if c < 0.92:
            return "MOV %s, %s" % (self.mem(store=True), r.choice([self.reg(), "0x%X" % r.choice([0, 5, 0x11223344])]))
        if c < 0.95 and d in REG8:
            return "MOV %s, %s" % (self.mem("BYTE", store=True), REG8[self.reg([x for x in REGS if x not in REG8])])
        if c < 0.97 and d in REG16:
            return "MOV %s, %s" % (self.mem("WORD", store=True), REG16[d])
        if d in REG8:
            return "MOVZX %s, %s" % (d, self.mem("BYTE"))
        return "XCHG %s, %s" % (d, self.reg([d]))

    def straight(self, n, avoid=()):
        for _ in range(n):
            self.lines.append("    " + self.simple(avoid))

    def cond(self):
        r = self.rng
        k = r.random()
        if k < 0.5:
            self.lines.append("    CMP %s, %s" % (self.reg(), r.choice([self.reg(), "0x%X" % r.choice([0, 1, 0x10, 0x80])])))
        elif k < 0.8:
            self.lines.append("    TEST %s, %s" % (self.reg(), r.choice([self.reg(), "0x%X" % r.choice([1, 0x80, 0xFF])])))
        else:
            self.lines.append("    %s %s, 0x%X" % (r.choice(["SUB", "AND", "ADD"]), self.reg(), r.choice([1, 2, 0x10])))
        return r.choice(JCC)

    def segment(self, avoid=()):
        r = self.rng
        c = r.random()
        self.depth += 1
        if self.depth > 3 or c < 0.35:
            self.straight(r.randrange(1, 4), avoid)
        elif c < 0.6:
            # if / else diamond
            jcc = self.cond()
            els, end = self.label(), self.label()
            self.lines.append("    %s %s" % (jcc, els))
            self.segment(avoid)
            self.lines.append("    JMP %s" % end)
            self.lines.append("%s:" % els)
            self.segment(avoid)
            self.lines.append("%s:" % end)
        elif c < 0.75:
            # if without else, through a jump-only block sometimes
            jcc = self.cond()
            end = self.label()
            if r.random() < 0.4:
                hop = self.label()
                self.lines.append("    %s %s" % (jcc, hop))
                self.segment(avoid)
                self.lines.append("    JMP %s" % end)
                self.lines.append("%s:" % hop)
                self.lines.append("    JMP %s" % end)
            else:
                self.lines.append("    %s %s" % (jcc, end))
                self.segment(avoid)
            self.lines.append("%s:" % end)
        elif c < 0.9 and self.loops and "ECX" not in avoid:
            # counted loop: the body never touches ECX
            top = self.label()
            self.lines.append("    MOV ECX, 0x%X" % r.randrange(1, 4))
            self.lines.append("%s:" % top)
            self.segment(tuple(avoid) + ("ECX",))
            self.lines.append("    DEC ECX")
            self.lines.append("    JNZ %s" % top)
        elif self.split:
            self.straight(r.randrange(1, 3), avoid)
        elif c < 0.95:
            # mixed-width overlap on one cell: wide store (or load), narrower store inside it, wide reload / use
            cell = r.choice(["ESP+0x10", "ESP+0x18", "0x2000"])
            base = int(cell.split("+")[1], 16) if "+" in cell else int(cell, 16)
            pre = "ESP+" if "+" in cell else ""
            a, b = self.reg(avoid), self.reg(avoid)
            k = r.choice([1, 2, 3])
            narrow = ("BYTE", REG8[r.choice(sorted(REG8))]) if k != 2 or r.random() < 0.5 else ("WORD", REG16[r.choice(sorted(REG16))])
            if r.random() < 0.5:
                self.lines.append("    MOV DWORD PTR [%s0x%X], %s" % (pre, base, a))
            else:
                self.lines.append("    MOV %s, DWORD PTR [%s0x%X]" % (a, pre, base))
            self.lines.append("    MOV %s PTR [%s0x%X], %s" % (narrow[0], pre, base + k, narrow[1]))
            if r.random() < 0.6:
                self.lines.append("    MOV %s, DWORD PTR [%s0x%X]" % (b, pre, base))
            else:
                self.lines.append("    MOV DWORD PTR [%s0x%X], %s" % (pre, base + 8, a))
        else:
            a = self.reg(avoid)
            self.lines.append("    PUSH %s" % a)
            self.straight(r.randrange(1, 3), avoid)
            self.lines.append("    POP %s" % self.reg(avoid))
        self.depth -= 1

    def function(self, nseg=None):
        self.lines = ["main:"]
        for _ in range(nseg or self.rng.randrange(2, 6)):
            self.segment()
        self.lines.append("    RET")
        # two labels on the same address confuse the assembler: keep them apart
        out = []
        for l in self.lines:
            if l.endswith(":") and out and out[-1].endswith(":"):
                out.append("    NOP")
            out.append(l)
        return "\n".join(out) + "\n"


def build(machine, src, base=0x1000):
    """assemble, disassemble, lift: returns (loc_db, lifter, asmcfg, head loc_key, make_ircfg) or raises"""
    from miasm.core.locationdb import LocationDB
    from miasm.core import parse_asm
    from miasm.core.asmblock import asm_resolve_final
    from miasm.core.interval import interval
    from miasm.core.bin_stream import bin_stream_str
    loc_db = LocationDB()
    asmcfg = parse_asm.parse_txt(machine.mn, 32, src, loc_db)
    loc_db.set_location_offset(loc_db.get_name_location("main"), base)
    patches = asm_resolve_final(machine.mn, asmcfg, dst_interval=interval([(base, base + 0x1000)]))
    code = bytearray(0x1000)
    for off, b in patches.items():
        code[off - base:off - base + len(b)] = b
    bs = bin_stream_str(bytes(code), base_address=base)
    mdis = machine.dis_engine(bs, loc_db=loc_db)
    cfg = mdis.dis_multiblock(base)
    lifter = machine.lifter_model_call(loc_db)
    head = loc_db.get_offset_location(base)

    def make_ircfg():
        return lifter.new_ircfg_from_asmcfg(cfg)
    return loc_db, lifter, cfg, head, make_ircfg
